package config

// Native replay for C13: real buildTask, TaskRunner, executor, shell and sleeping commands.

import (
	"encoding/json"
	"fmt"
	"os"
	"path/filepath"
	"strings"
	"testing"
	"time"

	"github.com/taskctl/taskctl/pkg/runner"
)

func TestVerifReplayC13(t *testing.T) {
	data, err := os.ReadFile(os.Getenv("VERIF_SCENARIO"))
	if err != nil {
		t.Skip("no scenario")
	}
	var sc struct {
		Args   []int64                `json:"args"`
		Label  string                 `json:"label"`
		Inputs map[string]interface{} `json:"inputs"`
	}
	json.Unmarshal(data, &sc)
	if strings.Contains(sc.Label, "killed-shortly-after-its-deadline") {
		// a child that ignores the interrupt and would end on its own after 4 s: with the library's
		// default handling it is killed about 2 s after the 300 ms deadline and the task fails
		dir := t.TempDir()
		marker := filepath.Join(dir, "second-command-ran")
		d := 300 * time.Millisecond
		def := &taskDefinition{Name: "tk", Timeout: &d, Command: []string{
			`sh -c 'trap "" INT; sleep 4'`,
			"touch " + marker,
		}}
		tk, err := buildTask(def, &loaderContext{Dir: dir})
		if err != nil {
			t.Fatal(err)
		}
		r, _ := runner.NewTaskRunner()
		r.Stdout, r.Stderr = &strings.Builder{}, &strings.Builder{}
		start := time.Now()
		rerr := r.Run(tk)
		took := time.Since(start)
		_, statErr := os.Stat(marker)
		fmt.Printf("REPLAY: stubborn child under a 300 ms timeout: Run returned %v after %v, second command ran: %v\n", rerr, took.Round(10*time.Millisecond), statErr == nil)
		if rerr == nil || statErr == nil || took > 3500*time.Millisecond {
			fmt.Println("REPLAY: reproduced: a command that overran its timeout was not terminated shortly afterwards (it lived on, the task did not fail or the next command started)")
		} else {
			fmt.Println("REPLAY: not-reproduced (the overrunning command was killed and the task failed)")
		}
		return
	}
	num := func(k string) float64 { f, _ := sc.Inputs[k].(float64); return f }
	withTimeout, nv := sc.Args[0] == 1, int(sc.Args[1])
	allow, _ := sc.Inputs["allow_failure"].(bool)
	withCond := len(sc.Args) > 2 && sc.Args[2] == 1
	order := []string{}
	if withCond {
		order = append(order, "cond")
	}
	order = append(order, "b0")
	vars := nv
	if vars == 0 {
		vars = 1
	}
	for v := 0; v < vars; v++ {
		order = append(order, "c0", "c1")
	}
	order = append(order, "a0")
	type plan struct {
		name    string
		overrun []bool
		fail    []bool
		slow    bool
	}
	scn := plan{name: "scenario"}
	for k := range order {
		scn.overrun = append(scn.overrun, withTimeout && num(fmt.Sprintf("duration.%d", k)) > num("timeout"))
		f, _ := sc.Inputs[fmt.Sprintf("exits-nonzero.%d", k)].(bool)
		scn.fail = append(scn.fail, f)
	}
	full := plan{name: "every command takes 0.6 x timeout", slow: true, overrun: make([]bool, len(order)), fail: make([]bool, len(order))}
	var bad []string
	plans := []plan{scn, full}
	if withTimeout {
		// each command / hook overrunning alone must be cut short
		for k := range order {
			p := plan{name: fmt.Sprintf("only %s (call %d) overruns", order[k], k), overrun: make([]bool, len(order)), fail: make([]bool, len(order))}
			p.overrun[k] = true
			plans = append(plans, p)
		}
	}
	for _, p := range plans {
		if p.slow && !withTimeout {
			continue
		}
		dir := t.TempDir()
		trace := filepath.Join(dir, "trace")
		os.WriteFile(trace, nil, 0o644)
		for k := range order {
			body := "true"
			switch {
			case p.overrun[k]:
				body = "sleep 2"
			case p.slow:
				body = "sleep 0.25"
			case p.fail[k]:
				body = "exit 1"
			}
			os.WriteFile(filepath.Join(dir, fmt.Sprintf("call.%d", k)), []byte(body+"\n"), 0o644)
		}
		cmd := func(tag string) string {
			return fmt.Sprintf("n=$(wc -l < %s); echo %s >> %s; . %s/call.$((n))", trace, tag, trace, dir)
		}
		def := &taskDefinition{Name: "tk", Command: []string{cmd("c0"), cmd("c1")}, Before: []string{cmd("b0")}, After: []string{cmd("a0")}, AllowFailure: allow}
		if withCond {
			def.Condition = cmd("cond")
		}
		if withTimeout {
			d := 400 * time.Millisecond
			def.Timeout = &d
		}
		for v := 0; v < nv; v++ {
			def.Variations = append(def.Variations, map[string]string{"V": fmt.Sprint(v)})
		}
		tk, err := buildTask(def, &loaderContext{Dir: dir})
		if err != nil {
			t.Fatal(err)
		}
		r, _ := runner.NewTaskRunner()
		r.Stdout, r.Stderr = &strings.Builder{}, &strings.Builder{}
		began := time.Now()
		runErr := r.Run(tk)
		took := time.Since(began)
		// reference
		var exp []string
		mustFail := false
		for k, tag := range order {
			exp = append(exp, tag)
			failed := p.overrun[k] || p.fail[k]
			if tag == "cond" && failed {
				mustFail = p.overrun[k]
				break
			}
			if failed && tag != "a0" && (tag == "b0" || p.overrun[k] || !allow) {
				mustFail = true
				break
			}
		}
		raw, _ := os.ReadFile(trace)
		got := strings.Fields(string(raw))
		fmt.Printf("REPLAY: [%s] expected %v fail=%v; observed %v err=%v in %v\n", p.name, exp, mustFail, got, runErr, took.Round(10*time.Millisecond))
		if strings.Join(got, " ") != strings.Join(exp, " ") || (runErr != nil) != mustFail {
			bad = append(bad, p.name+": commands run / task result differ from the reference")
		}
		overruns := 0
		for k := range exp {
			if p.overrun[k] {
				overruns++
			}
		}
		if withTimeout && !p.slow && took > time.Duration(overruns)*400*time.Millisecond+1100*time.Millisecond {
			bad = append(bad, p.name+": an overrunning command was not cut short")
		}
	}
	if len(bad) > 0 {
		fmt.Println("REPLAY: reproduced:", strings.Join(bad, "; "))
	} else {
		fmt.Println("REPLAY: not-reproduced (real code satisfies the property on this input)")
	}
}
