package output

// Native replay for C19 (prefixed / raw decorators): feeds the scenario's chunks
// to the real decorator and checks line integrity natively.

import (
	"bytes"
	"encoding/json"
	"fmt"
	"os"
	"strings"
	"testing"

	"github.com/taskctl/taskctl/pkg/task"
)

type c19Scenario struct {
	Harness string                 `json:"harness"`
	Args    []int64                `json:"args"`
	Inputs  map[string]interface{} `json:"inputs"`
}

type c19Rec struct{ writes [][]byte }

func (r *c19Rec) Write(p []byte) (int, error) {
	r.writes = append(r.writes, append([]byte(nil), p...))
	return len(p), nil
}

func TestVerifReplayC19(t *testing.T) {
	data, err := os.ReadFile(os.Getenv("VERIF_SCENARIO"))
	if err != nil {
		t.Skip("no scenario")
	}
	var sc c19Scenario
	if err := json.Unmarshal(data, &sc); err != nil {
		t.Fatal(err)
	}
	nw := int(sc.Args[0])
	wide := sc.Harness == "VerifC19Raw" || (len(sc.Args) > 2 && sc.Args[2] == 1)
	alpha := []byte{'a', 'b', '\r', '\n'}
	var chunks [][]byte
	for w := 0; w < nw; w++ {
		n := 0
		if v, ok := sc.Inputs[fmt.Sprintf("len.%d", w)]; ok {
			n = int(v.(float64))
		}
		p := make([]byte, n)
		for i := range p {
			v := 0
			if x, ok := sc.Inputs[fmt.Sprintf("byte.%d.%d", w, i)]; ok {
				v = int(x.(float64))
			}
			if wide {
				p[i] = byte(v)
			} else {
				p[i] = alpha[v%4]
			}
		}
		chunks = append(chunks, p)
	}
	rec := &c19Rec{}
	var bad []string
	strip := func(b []byte) string {
		return strings.NewReplacer("\r", "", "\n", "").Replace(string(b))
	}
	if sc.Harness == "VerifC19Raw" {
		d := newRawOutputWriter(rec)
		d.WriteHeader()
		for _, c := range chunks {
			d.Write(c)
		}
		d.WriteFooter()
		if len(rec.writes) != len(chunks) {
			bad = append(bad, "number of writes differs")
		} else {
			for i := range chunks {
				if !bytes.Equal(rec.writes[i], chunks[i]) {
					bad = append(bad, "bytes changed")
				}
			}
		}
	} else {
		d := newPrefixedOutputWriter(&task.Task{Name: "tk"}, rec)
		var in []byte
		for _, c := range chunks {
			in = append(in, c...)
			n, err := d.Write(c)
			if err != nil || n != len(c) {
				bad = append(bad, "Write did not accept all bytes")
			}
		}
		d.WriteFooter()
		var got []byte
		for _, w := range rec.writes {
			s := string(w)
			// aurora colours the name: strip ANSI for the prefix test
			s = ansiRegexp.ReplaceAllString(s, "")
			if !strings.HasPrefix(s, "tk: ") || !strings.HasSuffix(s, "\r\n") {
				bad = append(bad, fmt.Sprintf("malformed line %q", s))
				continue
			}
			payload := s[4 : len(s)-2]
			if strings.Contains(payload, "\n") {
				bad = append(bad, "LF inside a line")
			}
			got = append(got, payload...)
		}
		if strip(got) != strip(in) {
			bad = append(bad, fmt.Sprintf("payloads %q differ from input %q (terminators removed)", strip(got), strip(in)))
		}
	}
	fmt.Printf("REPLAY: chunks=%q sink=%q\n", chunks, rec.writes)
	if len(bad) > 0 {
		fmt.Println("REPLAY: reproduced:", strings.Join(bad, "; "))
	} else {
		fmt.Println("REPLAY: not-reproduced (real code satisfies the property on this input)")
	}
}

// c19Shared is a destination shared by two tasks: after every Write call that comes from the task
// under test, the other task gets its turn and writes a whole line through its own decorator -
// the interleaving a concurrent task can produce, made deterministic.
type c19Shared struct {
	out   []byte
	other func()
	busy  bool
}

func (s *c19Shared) Write(p []byte) (int, error) {
	s.out = append(s.out, p...)
	if !s.busy && s.other != nil {
		s.busy = true
		s.other()
		s.busy = false
	}
	return len(p), nil
}

// Replay of VerifC19Long: the long line of the scenario through the real prefixed decorator while
// another task writes to the same destination between any two Write calls of the first.
func TestVerifReplayC19Long(t *testing.T) {
	data, err := os.ReadFile(os.Getenv("VERIF_SCENARIO"))
	if err != nil {
		t.Skip("no scenario")
	}
	var sc c19Scenario
	json.Unmarshal(data, &sc)
	n := int(sc.Args[0])
	p := bytes.Repeat([]byte{'x'}, n)
	for k, pos := range []int{0, n / 2, n - 1} {
		if v, ok := sc.Inputs[fmt.Sprintf("long.%d", k)].(float64); ok {
			p[pos] = byte(v)
		} else {
			p[pos] = 'y'
		}
	}
	shared := &c19Shared{}
	d := newPrefixedOutputWriter(&task.Task{Name: "tk"}, shared)
	o := newPrefixedOutputWriter(&task.Task{Name: "other"}, shared)
	shared.other = func() { o.Write([]byte("oooo\n")) }
	want := ""
	if v, _ := sc.Inputs["short-chunk-first"].(bool); v {
		d.Write([]byte("hd"))
		want = "hd"
	}
	want += string(p)
	if v, _ := sc.Inputs["terminated"].(bool); v {
		p = append(p, '\n')
	}
	var bad []string
	if wn, err := d.Write(p); err != nil || wn != len(p) {
		bad = append(bad, "Write did not accept all bytes")
	}
	d.WriteFooter()
	got := ""
	for _, line := range strings.Split(strings.TrimSuffix(string(shared.out), "\r\n"), "\r\n") {
		s := ansiRegexp.ReplaceAllString(line, "")
		switch {
		case strings.HasPrefix(s, "tk: "):
			if strings.Contains(s, "other: ") || strings.Contains(s, "oooo") {
				bad = append(bad, fmt.Sprintf("a line attributed to tk carries the other task's bytes: %.60q...", s))
			}
			got += s[4:]
		case strings.HasPrefix(s, "other: "):
			if s != "other: oooo" {
				bad = append(bad, fmt.Sprintf("a line attributed to the other task carries foreign bytes: %.60q...", s))
			}
		default:
			bad = append(bad, fmt.Sprintf("a line without a task name: %.60q...", s))
		}
	}
	if got != want {
		bad = append(bad, fmt.Sprintf("tk's lines carry %d bytes, its output had %d (or the bytes differ)", len(got), len(want)))
	}
	fmt.Printf("REPLAY: line of %d bytes, %d bytes at the destination\n", n, len(shared.out))
	if len(bad) > 0 {
		fmt.Println("REPLAY: reproduced:", strings.Join(bad, "; "))
	} else {
		fmt.Println("REPLAY: not-reproduced (real code satisfies the property on this input)")
	}
}

// Replay of VerifC19Ansi: the scenario's stream (three segments) in two Write calls split at the
// scenario's position, through the real prefixed decorator; what reaches the destination, with
// prefixes, line terminators and escape sequences removed, must be the stream with line
// terminators and escape sequences removed.
func TestVerifReplayC19Ansi(t *testing.T) {
	data, err := os.ReadFile(os.Getenv("VERIF_SCENARIO"))
	if err != nil {
		t.Skip("no scenario")
	}
	var sc c19Scenario
	json.Unmarshal(data, &sc)
	segs := []string{"a", "\x1b[32m", "\n", "b\x1b[0m", "\x1b[1;31mc", "\r\n"}
	num := func(k string) int {
		if f, ok := sc.Inputs[k].(float64); ok {
			return int(f)
		}
		return 0
	}
	stream := ""
	for k := 0; k < 3; k++ {
		stream += segs[num(fmt.Sprintf("segment.%d", k))%len(segs)]
	}
	in := []byte(stream)
	cut := num("cut")
	if cut > len(in) {
		cut = len(in)
	}
	rec := &c19Rec{}
	d := newPrefixedOutputWriter(&task.Task{Name: "tk"}, rec)
	var bad []string
	for _, p := range [][]byte{in[:cut], in[cut:]} {
		if n, err := d.Write(p); err != nil || n != len(p) {
			bad = append(bad, fmt.Sprintf("Write(%q) = %d, %v", p, n, err))
		}
	}
	d.WriteFooter()
	strip := func(b []byte) string {
		return strings.NewReplacer("\r", "", "\n", "").Replace(string(ansiRegexp.ReplaceAllLiteral(b, nil)))
	}
	var got []byte
	for _, w := range rec.writes {
		s := string(w)
		// the prefix carries the coloured task name: find the ": " that ends it
		i := strings.Index(s, ": ")
		if i < 0 || !strings.Contains(s[:i], "tk") || !strings.HasSuffix(s, "\r\n") {
			bad = append(bad, fmt.Sprintf("malformed line %q", s))
			continue
		}
		got = append(got, s[i+2:len(s)-2]...)
	}
	fmt.Printf("REPLAY: writes %q | %q; destination %q\n", in[:cut], in[cut:], rec.writes)
	if strip(got) != strip(in) {
		bad = append(bad, fmt.Sprintf("the lines carry %q, the task's output without terminators and escape sequences is %q", strip(got), strip(in)))
	}
	if len(bad) > 0 {
		fmt.Println("REPLAY: reproduced:", strings.Join(bad, "; "))
	} else {
		fmt.Println("REPLAY: not-reproduced (real code satisfies the property on this input)")
	}
}
