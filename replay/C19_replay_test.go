package output

// Native replay for C19 (prefixed / raw decorators): feeds the scenario's chunks
// to the real decorator and checks line integrity natively.

import (
	"bytes"
	"encoding/json"
	"fmt"
	"os"
	"strings"
	"testing"

	"github.com/taskctl/taskctl/pkg/task"
)

type c19Scenario struct {
	Harness string                 `json:"harness"`
	Args    []int64                `json:"args"`
	Inputs  map[string]interface{} `json:"inputs"`
}

type c19Rec struct{ writes [][]byte }

func (r *c19Rec) Write(p []byte) (int, error) {
	r.writes = append(r.writes, append([]byte(nil), p...))
	return len(p), nil
}

func TestVerifReplayC19(t *testing.T) {
	data, err := os.ReadFile(os.Getenv("VERIF_SCENARIO"))
	if err != nil {
		t.Skip("no scenario")
	}
	var sc c19Scenario
	if err := json.Unmarshal(data, &sc); err != nil {
		t.Fatal(err)
	}
	nw := int(sc.Args[0])
	wide := sc.Harness == "VerifC19Raw" || (len(sc.Args) > 2 && sc.Args[2] == 1)
	alpha := []byte{'a', 'b', '\r', '\n'}
	var chunks [][]byte
	for w := 0; w < nw; w++ {
		n := 0
		if v, ok := sc.Inputs[fmt.Sprintf("len.%d", w)]; ok {
			n = int(v.(float64))
		}
		p := make([]byte, n)
		for i := range p {
			v := 0
			if x, ok := sc.Inputs[fmt.Sprintf("byte.%d.%d", w, i)]; ok {
				v = int(x.(float64))
			}
			if wide {
				p[i] = byte(v)
			} else {
				p[i] = alpha[v%4]
			}
		}
		chunks = append(chunks, p)
	}
	rec := &c19Rec{}
	var bad []string
	strip := func(b []byte) string {
		return strings.NewReplacer("\r", "", "\n", "").Replace(string(b))
	}
	if sc.Harness == "VerifC19Raw" {
		d := newRawOutputWriter(rec)
		d.WriteHeader()
		for _, c := range chunks {
			d.Write(c)
		}
		d.WriteFooter()
		if len(rec.writes) != len(chunks) {
			bad = append(bad, "number of writes differs")
		} else {
			for i := range chunks {
				if !bytes.Equal(rec.writes[i], chunks[i]) {
					bad = append(bad, "bytes changed")
				}
			}
		}
	} else {
		d := newPrefixedOutputWriter(&task.Task{Name: "tk"}, rec)
		var in []byte
		for _, c := range chunks {
			in = append(in, c...)
			n, err := d.Write(c)
			if err != nil || n != len(c) {
				bad = append(bad, "Write did not accept all bytes")
			}
		}
		d.WriteFooter()
		var got []byte
		for _, w := range rec.writes {
			s := string(w)
			// aurora colours the name: strip ANSI for the prefix test
			s = ansiRegexp.ReplaceAllString(s, "")
			if !strings.HasPrefix(s, "tk: ") || !strings.HasSuffix(s, "\r\n") {
				bad = append(bad, fmt.Sprintf("malformed line %q", s))
				continue
			}
			payload := s[4 : len(s)-2]
			if strings.Contains(payload, "\n") {
				bad = append(bad, "LF inside a line")
			}
			got = append(got, payload...)
		}
		if strip(got) != strip(in) {
			bad = append(bad, fmt.Sprintf("payloads %q differ from input %q (terminators removed)", strip(got), strip(in)))
		}
	}
	fmt.Printf("REPLAY: chunks=%q sink=%q\n", chunks, rec.writes)
	if len(bad) > 0 {
		fmt.Println("REPLAY: reproduced:", strings.Join(bad, "; "))
	} else {
		fmt.Println("REPLAY: not-reproduced (real code satisfies the property on this input)")
	}
}
