package runner

// Native replay for C12: the thread-mode counterexample does not carry a
// schedule that can be forced on the Go runtime, so the replay searches the three
// timing classes (cancel before / during / after the runs) with real sleeping
// commands and reports what the real TaskRunner does.

import (
	"encoding/json"
	"fmt"
	"os"
	"strings"
	"sync"
	"testing"
	"time"

	"github.com/taskctl/taskctl/pkg/task"
	"github.com/taskctl/taskctl/pkg/variables"
)

type c12Scenario struct {
	Args   []int64                `json:"args"`
	Label  string                 `json:"label"`
	Inputs map[string]interface{} `json:"inputs"`
}

func TestVerifReplayC12(t *testing.T) {
	data, err := os.ReadFile(os.Getenv("VERIF_SCENARIO"))
	if err != nil {
		t.Skip("no scenario")
	}
	var sc c12Scenario
	json.Unmarshal(data, &sc)
	k, times := int(sc.Args[0]), int(sc.Args[1])
	fmt.Println("REPLAY-CRASH-MEANS-REPRODUCED (a panic of the process below is the violation)")
	var bad []string
	if len(sc.Args) >= 5 && sc.Args[3] >= 2 {
		// two concurrent Cancel calls while a run winds down through its context's after command
		dir := t.TempDir()
		trace := dir + "/after-started"
		ectx := NewExecutionContext(nil, "", variables.NewVariables(), nil, nil, nil, []string{"date +%s%N > " + trace})
		r, _ := NewTaskRunner(WithContexts(map[string]*ExecutionContext{"ctx": ectx}))
		r.Stdout, r.Stderr = &strings.Builder{}, &strings.Builder{}
		tk := task.FromCommands("sleep 0.6")
		tk.Name = "t0"
		tk.Context = "ctx"
		runDone := make(chan struct{})
		go func() { r.Run(tk); close(runDone) }()
		time.Sleep(100 * time.Millisecond)
		go r.Cancel()
		time.Sleep(50 * time.Millisecond)
		secondReturned := make(chan int64, 1)
		go func() { r.Cancel(); secondReturned <- time.Now().UnixNano() }()
		var ret int64
		select {
		case ret = <-secondReturned:
		case <-time.After(5 * time.Second):
			bad = append(bad, "second concurrent Cancel did not return within 5s")
		}
		<-runDone
		raw, _ := os.ReadFile(trace)
		var started int64
		fmt.Sscan(strings.TrimSpace(string(raw)), &started)
		fmt.Printf("REPLAY: second Cancel returned at %d, context after command started at %d\n", ret, started)
		if ret != 0 && started > ret {
			bad = append(bad, "a command (the context's after hook) started after a Cancel call had returned")
		}
	}
	for _, when := range []string{"before", "during", "after"} {
		r, _ := NewTaskRunner()
		r.Stdout, r.Stderr = &strings.Builder{}, &strings.Builder{}
		var wg sync.WaitGroup
		errs := make([]error, k)
		startedLate := make([]bool, k)
		cancelDone := make(chan struct{})
		var cancelReturned bool
		var mu sync.Mutex
		doCancel := func() {
			go func() {
				for n := 0; n < times; n++ {
					r.Cancel()
					mu.Lock()
					cancelReturned = true
					mu.Unlock()
				}
				close(cancelDone)
			}()
		}
		if when == "before" {
			doCancel()
			time.Sleep(100 * time.Millisecond)
		}
		for i := 0; i < k; i++ {
			i := i
			tk := task.FromCommands("sleep 0.4")
			if i%2 == 1 {
				tk = task.FromCommands("sleep 0.2", "sleep 0.2")
			}
			tk.Name = fmt.Sprintf("t%d", i)
			tk.AllowFailure, _ = sc.Inputs[fmt.Sprintf("allow_failure.%d", i)].(bool)
			wg.Add(1)
			go func() {
				defer wg.Done()
				mu.Lock()
				startedLate[i] = cancelReturned
				mu.Unlock()
				errs[i] = r.Run(tk)
			}()
		}
		if when == "during" {
			time.Sleep(100 * time.Millisecond)
			doCancel()
		}
		runsDone := make(chan struct{})
		go func() { wg.Wait(); close(runsDone) }()
		select {
		case <-runsDone:
		case <-time.After(5 * time.Second):
			bad = append(bad, when+": a Run call did not return within 5s")
		}
		if when == "after" {
			doCancel()
		}
		select {
		case <-cancelDone:
		case <-time.After(3 * time.Second):
			bad = append(bad, fmt.Sprintf("%s: Cancel did not return within 3s with %d run(s) (deadlock)", when, k))
		}
		for i := 0; i < k; i++ {
			if (when == "during" || startedLate[i]) && errs[i] == nil {
				bad = append(bad, fmt.Sprintf("%s: run %d was interrupted / started after cancellation but reported success", when, i))
			}
		}
	}
	if len(bad) > 0 {
		fmt.Println("REPLAY: reproduced:", strings.Join(bad, "; "))
	} else {
		fmt.Println("REPLAY: not-reproduced (real code behaved on the three timing classes)")
	}
}
