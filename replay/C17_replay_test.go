package config

// Native replay for C17: real files in a temp dir, real Loader.Load (parsers, mergo, mapstructure).

import (
	"runtime/debug"
	"encoding/json"
	"fmt"
	"os"
	"path/filepath"
	"strings"
	"testing"
)

func TestVerifReplayC17(t *testing.T) {
	data, err := os.ReadFile(os.Getenv("VERIF_SCENARIO"))
	if err != nil {
		t.Skip("no scenario")
	}
	var sc struct {
		Args   []int64                `json:"args"`
		Inputs map[string]interface{} `json:"inputs"`
	}
	json.Unmarshal(data, &sc)
	n := int(sc.Args[0])
	short := []string{"a", "c", "d", "b"}
	rel := []string{"a.yaml", "sub/c.yaml", "sub/d.yaml", "b.yaml"}
	fromTop := []string{"a.yaml", "sub/c.yaml", "sub/d.yaml", "b.yaml", "sub", "missing.yaml"}
	fromSub := []string{"../a.yaml", "c.yaml", "d.yaml", "../b.yaml", "../sub", "missing.yaml"}
	bv := func(k string, def bool) bool {
		if v, ok := sc.Inputs[k].(bool); ok {
			return v
		}
		return def
	}
	num := func(k string) int { f, _ := sc.Inputs[k].(float64); return int(f) }
	dir := t.TempDir()
	os.MkdirAll(filepath.Join(dir, "sub"), 0o755)
	exists := make([]bool, n)
	parses := make([]bool, n)
	targets := make([][]int, n)
	for k := 0; k < n; k++ {
		exists[k] = k == 0 || bv("exists."+short[k], true)
		parses[k] = bv("parses."+short[k], true)
		cnt := num("nimports." + short[k])
		texts := fromTop
		if k == 1 || k == 2 {
			texts = fromSub
		}
		var sb strings.Builder
		if cnt > 0 {
			sb.WriteString("import:\n")
		}
		for l := 0; l < cnt; l++ {
			tgt := num(fmt.Sprintf("import.%s.%d", short[k], l))
			targets[k] = append(targets[k], tgt)
			fmt.Fprintf(&sb, "  - %s\n", texts[tgt])
		}
		fmt.Fprintf(&sb, "tasks:\n  task-%s:\n    command: ['true']\n", short[k])
		content := sb.String()
		if !parses[k] {
			content = "tasks: {{{ not yaml\n"
		}
		if exists[k] {
			os.WriteFile(filepath.Join(dir, rel[k]), []byte(content), 0o644)
		}
	}
	// reference
	reach := make([]bool, n)
	reach[0] = true
	for round := 0; round <= n; round++ {
		for k := 0; k < n; k++ {
			if !reach[k] || !exists[k] || !parses[k] {
				continue
			}
			for _, tg := range targets[k] {
				if tg < n {
					reach[tg] = true
				} else if tg == 4 {
					for j := 1; j <= 2 && j < n; j++ {
						if exists[j] {
							reach[j] = true
						}
					}
				}
			}
		}
	}
	broken := false
	for k := 0; k < n; k++ {
		if reach[k] && (!exists[k] || !parses[k]) {
			broken = true
		}
		if reach[k] && exists[k] && parses[k] {
			for _, tg := range targets[k] {
				if tg == 5 {
					broken = true
				}
			}
		}
	}
	wd, _ := os.Getwd()
	os.Chdir(dir)
	defer os.Chdir(wd)
	os.Setenv("HOME", dir)
	cl := NewConfigLoader(NewConfig())
	fmt.Println("REPLAY-CRASH-MEANS-REPRODUCED (a stack overflow of the process below - an import closure that never ends - is the violation)")
	debug.SetMaxStack(32 << 20)
	cfg, lerr := cl.Load(filepath.Join(dir, "a.yaml"))
	var have []string
	if cfg != nil {
		for k := range cfg.Tasks {
			have = append(have, k)
		}
	}
	fmt.Printf("REPLAY: exists=%v parses=%v imports=%v reachable=%v broken=%v -> err=%v tasks=%v\n", exists, parses, targets, reach, broken, lerr, have)
	var bad []string
	if broken && lerr == nil {
		bad = append(bad, "a file in the import closure is missing or unparsable but loading succeeded")
	}
	if !broken {
		if lerr != nil {
			bad = append(bad, "sound import structure failed to load: "+lerr.Error())
		} else {
			for k := 0; k < n; k++ {
				tk, ok := cfg.Tasks["task-"+short[k]]
				if ok != reach[k] {
					bad = append(bad, fmt.Sprintf("definitions of %s present=%v, reachable=%v", rel[k], ok, reach[k]))
				}
				// a file taken twice shows as list-valued fields doubled (imports are merged with append)
				if ok && len(tk.Commands) != 1 {
					bad = append(bad, fmt.Sprintf("definitions of %s were merged %d times (command list %v)", rel[k], len(tk.Commands), tk.Commands))
				}
			}
		}
	}
	if len(bad) > 0 {
		fmt.Println("REPLAY: reproduced:", strings.Join(bad, "; "))
	} else {
		fmt.Println("REPLAY: not-reproduced (real loader satisfies the property on this input)")
	}
}
