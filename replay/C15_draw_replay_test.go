package main

// Native replay for VerifC15Draw: the scenario's inclusion structure as a YAML file, loaded by the
// real loader; if it loads, the real `graph` command runs on both pipelines. The stack limit is
// lowered so that an endless recursion kills the process quickly (that crash is the violation).

import (
	"encoding/json"
	"fmt"
	"os"
	"path/filepath"
	"runtime/debug"
	"testing"
)

func TestVerifReplayC15Draw(t *testing.T) {
	data, err := os.ReadFile(os.Getenv("VERIF_SCENARIO"))
	if err != nil {
		t.Skip("no scenario")
	}
	var sc struct {
		Inputs map[string]interface{} `json:"inputs"`
	}
	json.Unmarshal(data, &sc)
	stage := func(name string) string {
		sh := 0
		if f, ok := sc.Inputs["stage."+name+".shape"].(float64); ok {
			sh = int(f)
		}
		return []string{
			"{name: %s, task: t1}",
			"{name: %s, pipeline: p1}",
			"{name: %s, pipeline: p2}",
			"{name: %s, task: t1, pipeline: p1}",
			"{name: %s, task: t1, pipeline: p2}",
		}[sh]
	}
	doc := "tasks:\n  t1:\n    command: \"true\"\npipelines:\n  p1:\n"
	doc += "    - " + fmt.Sprintf(stage("a"), "a") + "\n    - " + fmt.Sprintf(stage("b"), "b") + "\n  p2:\n"
	doc += "    - " + fmt.Sprintf(stage("c"), "c") + "\n    - " + fmt.Sprintf(stage("d"), "d") + "\n"
	dir := t.TempDir()
	file := filepath.Join(dir, "tasks.yaml")
	os.WriteFile(file, []byte(doc), 0o644)
	fmt.Printf("REPLAY: configuration:\n%s", doc)
	fmt.Println("REPLAY-CRASH-MEANS-REPRODUCED (a stack overflow of the process below is the violation)")
	debug.SetMaxStack(16 << 20)
	old := os.Stdout
	devnull, _ := os.OpenFile(os.DevNull, os.O_WRONLY, 0)
	os.Stdout = devnull
	var errs []error
	for _, p := range []string{"p1", "p2"} {
		app := makeApp()
		errs = append(errs, app.Run([]string{"taskctl", "-c", file, "graph", p}))
	}
	os.Stdout = old
	fmt.Printf("REPLAY: graph p1 / p2 returned %v\n", errs)
	fmt.Println("REPLAY: not-reproduced (the graph command returned on this configuration)")
}
