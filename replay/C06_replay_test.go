package runner

// Native replay for C06 / C07 (task level): the scenario's outcomes are turned
// into real shell commands run by the real TaskRunner and executor.

import (
	"encoding/json"
	"fmt"
	"os"
	"path/filepath"
	"strings"
	"testing"

	"github.com/taskctl/taskctl/pkg/task"
)

type c06Scenario struct {
	Args   []int64                `json:"args"`
	Inputs map[string]interface{} `json:"inputs"`
}

func TestVerifReplayC06(t *testing.T) {
	data, err := os.ReadFile(os.Getenv("VERIF_SCENARIO"))
	if err != nil {
		t.Skip("no scenario")
	}
	var sc c06Scenario
	if err := json.Unmarshal(data, &sc); err != nil {
		t.Fatal(err)
	}
	nc, nv, nb, na, cond := int(sc.Args[0]), int(sc.Args[1]), int(sc.Args[2]), int(sc.Args[3]), int(sc.Args[4])
	dir := t.TempDir()
	trace := filepath.Join(dir, "trace")
	os.WriteFile(trace, nil, 0o644)
	num := func(key string) int {
		if v, ok := sc.Inputs[key]; ok {
			return int(v.(float64))
		}
		return 0
	}
	allow, _ := sc.Inputs["allow_failure"].(bool)
	// outcome of the k-th started command
	kind := func(k int) int { return num(fmt.Sprintf("outcome.%d", k)) }
	status := func(k int) int { return num(fmt.Sprintf("status.%d", k)) }
	for k := 0; k < 32; k++ {
		st := 0
		if kind(k) == 1 {
			st = status(k)
		}
		os.WriteFile(filepath.Join(dir, fmt.Sprintf("st.%d", k)), []byte(fmt.Sprint(st)), 0o644)
	}
	// which tags must be unparsable (non-status error at their first call)
	firstCall := map[string]int{}
	var order []string
	add := func(tag string) {
		if _, ok := firstCall[tag]; !ok {
			firstCall[tag] = -1
		}
		order = append(order, tag)
	}
	cmds := []string{"c0", "c1", "c2"}[:nc]
	befores := []string{"b0", "b1"}[:nb]
	afters := []string{"a0", "a1"}[:na]
	_ = add
	mk := func(tag string, broken bool) string {
		if broken {
			return "echo " + tag + " 'unterminated"
		}
		return fmt.Sprintf("n=$(wc -l < %s); echo %s >> %s; exit $(cat %s/st.$((n)))", trace, tag, trace, dir)
	}
	// ---- reference semantics, driven by the scenario's outcomes ----
	var exp []string
	i := 0
	skipped, failed, cmdFailed := false, false, false
	failStatus := -1
	broken := map[string]bool{}
	next := func(tag string) (bool, bool) { // failed, isStatus
		k := i
		i++
		switch kind(k) {
		case 1:
			exp = append(exp, tag)
			return true, true
		case 2:
			broken[tag] = true // never starts: not in the trace
			return true, false
		}
		exp = append(exp, tag)
		return false, false
	}
	if cond == 1 {
		f, s := next("cond")
		if f && s {
			skipped = true
		} else if f {
			failed = true
		}
	}
	if !skipped && !failed {
		for _, b := range befores {
			if f, _ := next(b); f {
				failed = true
				break
			}
		}
	}
	ran := false
	if !skipped && !failed {
		ran = true
		vars := nv
		if vars == 0 {
			vars = 1
		}
	loop:
		for v := 0; v < vars; v++ {
			for _, cm := range cmds {
				k := i
				f, s := next(cm)
				if f && !(s && allow) {
					failed, cmdFailed = true, true
					if s {
						failStatus = status(k)
					}
					break loop
				}
			}
		}
	}
	if ran && !failed {
		for _, a := range afters {
			next(a)
		}
	}
	if len(broken) > 0 && nv > 1 {
		fmt.Println("REPLAY: not-replayable (non-status error on a repeated command)")
		return
	}
	// ---- the real run ----
	var cs []string
	for _, c := range cmds {
		cs = append(cs, mk(c, broken[c]))
	}
	tk := task.FromCommands(cs...)
	tk.Name = "t"
	for v := 0; v < nv; v++ {
		val, _ := sc.Inputs[fmt.Sprintf("variation.%d.V", v)].(string)
		if val == "" {
			val = "x"
		}
		tk.Variations = append(tk.Variations, map[string]string{"V": val})
	}
	for _, b := range befores {
		tk.Before = append(tk.Before, mk(b, broken[b]))
	}
	for _, a := range afters {
		tk.After = append(tk.After, mk(a, broken[a]))
	}
	if cond == 1 {
		tk.Condition = mk("cond", broken["cond"])
	}
	tk.AllowFailure = allow
	initial := tk.ExitCode
	r, err := NewTaskRunner()
	if err != nil {
		t.Fatal(err)
	}
	r.Stdout, r.Stderr = &strings.Builder{}, &strings.Builder{}
	runErr := r.Run(tk)
	raw, _ := os.ReadFile(trace)
	got := strings.Fields(string(raw))
	fmt.Printf("REPLAY: expected trace %v, observed %v; err=%v skipped=%v errored=%v exit=%d\n", exp, got, runErr, tk.Skipped, tk.Errored, tk.ExitCode)
	var bad []string
	if strings.Join(got, " ") != strings.Join(exp, " ") {
		bad = append(bad, "executed commands differ from the reference order")
	}
	if tk.Skipped != skipped {
		bad = append(bad, "skipped flag")
	}
	if (runErr != nil) != failed {
		bad = append(bad, "Run error does not match failure")
	}
	switch {
	case skipped:
		if tk.Errored || tk.ExitCode != initial {
			bad = append(bad, "skipped task records a status")
		}
	case cmdFailed:
		if !tk.Errored || tk.Error == nil {
			bad = append(bad, "failed task not marked errored")
		}
		if failStatus >= 0 && int(tk.ExitCode) != failStatus {
			bad = append(bad, fmt.Sprintf("exit code %d recorded for status %d", tk.ExitCode, failStatus))
		}
	case !failed:
		if tk.Errored || tk.ExitCode != 0 {
			bad = append(bad, "successful task records an error/status")
		}
	}
	if len(bad) > 0 {
		fmt.Println("REPLAY: reproduced:", strings.Join(bad, "; "))
	} else {
		fmt.Println("REPLAY: not-reproduced (real code satisfies the property on this input)")
	}
}
