package runner

// Native replay for C19 (b): the scenario's task outcome under the selected output format, real runner/executor/output layer.

import (
	"encoding/json"
	"fmt"
	"os"
	"path/filepath"
	"strings"
	"testing"

	"github.com/taskctl/taskctl/pkg/task"
)

func TestVerifReplayC19Formats(t *testing.T) {
	data, err := os.ReadFile(os.Getenv("VERIF_SCENARIO"))
	if err != nil {
		t.Skip("no scenario")
	}
	var sc struct {
		Args   []int64                `json:"args"`
		Inputs map[string]interface{} `json:"inputs"`
	}
	json.Unmarshal(data, &sc)
	num := func(k string) int { f, _ := sc.Inputs[k].(float64); return int(f) }
	format := []string{"raw", "prefixed", "cockpit"}[sc.Args[0]]
	shape := int(sc.Args[1])
	dir := t.TempDir()
	trace := filepath.Join(dir, "trace")
	os.WriteFile(trace, nil, 0o644)
	for k := 0; k < 8; k++ {
		st := 0
		if num(fmt.Sprintf("outcome.%d", k)) == 1 {
			st = num(fmt.Sprintf("status.%d", k))
		}
		os.WriteFile(filepath.Join(dir, fmt.Sprintf("st.%d", k)), []byte(fmt.Sprint(st)), 0o644)
	}
	mk := func(tag string) string {
		return fmt.Sprintf("n=$(wc -l < %s); echo %s >> %s; echo out-%s; echo err-%s >&2; exit $(cat %s/st.$((n)))", trace, tag, trace, tag, tag, dir)
	}
	tk := task.FromCommands(mk("c0"))
	tk.Name = "tk"
	if shape&1 != 0 {
		tk.Condition = mk("cond")
	}
	if shape&2 != 0 {
		tk.Before = []string{mk("b0")}
	}
	tk.AllowFailure, _ = sc.Inputs["allow_failure"].(bool)
	fmt.Println("REPLAY-CRASH-MEANS-REPRODUCED (a panic of the process below is the violation)")
	results := map[string]string{}
	for _, f := range []string{"raw", format} {
		os.WriteFile(trace, nil, 0o644)
		tc := *tk
		r, _ := NewTaskRunner()
		r.Stdout, r.Stderr = &strings.Builder{}, &strings.Builder{}
		r.OutputFormat = f
		e := r.Run(&tc)
		raw, _ := os.ReadFile(trace)
		results[f] = fmt.Sprintf("err=%v skipped=%v errored=%v exit=%d ran=%v recorded stdout=%q stderr=%q output=%q", e != nil, tc.Skipped, tc.Errored, tc.ExitCode, strings.Fields(string(raw)), tc.Log.Stdout.String(), tc.Log.Stderr.String(), tc.Output())
	}
	fmt.Printf("REPLAY: raw: %s\nREPLAY: %s: %s\n", results["raw"], format, results[format])
	if results["raw"] != results[format] {
		fmt.Println("REPLAY: reproduced: the task's recorded result depends on the output format")
	} else {
		fmt.Println("REPLAY: not-reproduced (same result under both formats, no crash)")
	}
}
