package scheduler

// Native replay for VerifC12Sched: the scenario's pipeline through the real Scheduler and the real
// TaskRunner with real sleeping commands; the run is cancelled while commands are in flight
// (mode 0: Scheduler.Cancel from another goroutine; mode 1: the condition of stage b can no longer
// be evaluated once a command has started).

import (
	"encoding/json"
	"fmt"
	"os"
	"path/filepath"
	"strings"
	"testing"
	"time"

	"github.com/taskctl/taskctl/pkg/runner"
	"github.com/taskctl/taskctl/pkg/task"
)

func TestVerifReplayC12Sched(t *testing.T) {
	data, err := os.ReadFile(os.Getenv("VERIF_SCENARIO"))
	if err != nil {
		t.Skip("no scenario")
	}
	var sc struct {
		Args   []int64                `json:"args"`
		Inputs map[string]interface{} `json:"inputs"`
	}
	json.Unmarshal(data, &sc)
	bv := func(k string) bool { v, _ := sc.Inputs[k].(bool); return v }
	shape, mode := int(sc.Args[0]), int(sc.Args[1])
	dir := t.TempDir()
	exists := func(n string) bool { _, err := os.Stat(filepath.Join(dir, n)); return err == nil }
	deps := [][][]string{{nil, {"a"}, nil}, {nil, nil, nil}, {nil, {"a"}, {"b"}}, {nil, {"a"}, nil}}[shape]
	g, _ := NewExecutionGraph()
	inner, _ := NewExecutionGraph()
	var stages []*Stage
	cond := filepath.Join(dir, "cond.sh")
	os.WriteFile(cond, []byte("#!/bin/sh\nexit 0\n"), 0o755)
	for i, n := range []string{"a", "b", "c"} {
		st := 0
		if bv("command-fails.cmd-" + n) {
			st = 2
		}
		tk := task.FromCommands(fmt.Sprintf("touch %s/started-%s; sleep 0.5; touch %s/finished-%s; exit %d", dir, n, dir, n, st))
		tk.Name = n
		s := &Stage{Name: n, Task: tk, DependsOn: deps[i]}
		s.AllowFailure = bv("stage-allows-failure." + n)
		tk.AllowFailure = bv("task-allows-failure." + n)
		if mode == 1 && i == 1 {
			s.Condition = cond
		}
		target := g
		if shape == 3 && i < 2 {
			target = inner // a and b form a nested pipeline
		}
		if err := target.AddStage(s); err != nil {
			t.Fatal(err)
		}
		stages = append(stages, s)
	}
	if shape == 3 {
		if err := g.AddStage(&Stage{Name: "n", Pipeline: inner}); err != nil {
			t.Fatal(err)
		}
	}
	r, _ := runner.NewTaskRunner()
	r.Stdout, r.Stderr = &strings.Builder{}, &strings.Builder{}
	s := NewScheduler(r)
	fmt.Println("REPLAY-CRASH-MEANS-REPRODUCED (a panic of the process below is the violation)")
	done := make(chan error, 1)
	go func() { done <- s.Schedule(g) }()
	startedAtCancel := map[string]bool{}
	cancelReturned := make(chan struct{})
	go func() {
		for !exists("started-a") && !exists("started-c") {
			time.Sleep(5 * time.Millisecond)
		}
		time.Sleep(100 * time.Millisecond)
		if mode == 0 {
			s.Cancel()
		} else {
			os.Remove(cond) // from now on the condition cannot be evaluated: Schedule cancels itself
			time.Sleep(300 * time.Millisecond)
		}
		for _, n := range []string{"a", "b", "c"} {
			startedAtCancel[n] = exists("started-" + n)
		}
		close(cancelReturned)
	}()
	var bad []string
	var serr error
	select {
	case serr = <-done:
	case <-time.After(15 * time.Second):
		bad = append(bad, "the pipeline run did not return within 15 s of the cancellation")
	}
	select {
	case <-cancelReturned:
	case <-time.After(10 * time.Second):
		bad = append(bad, "Cancel did not return within 10 s")
	}
	time.Sleep(700 * time.Millisecond)
	hard := false
	for _, st := range stages {
		n := st.Name
		started, finished := exists("started-"+n), exists("finished-"+n)
		if started && !startedAtCancel[n] && mode == 0 {
			bad = append(bad, "a command of stage "+n+" started after Cancel had returned")
		}
		interrupted := started && !finished
		if interrupted {
			if st.ReadStatus() == StatusDone && !st.AllowFailure {
				bad = append(bad, "stage "+n+" was interrupted but is Done")
			}
			if !st.Task.Errored {
				bad = append(bad, "the task of stage "+n+" was interrupted but does not report an error")
			}
			if !st.AllowFailure {
				hard = true
			}
		}
		if !started && st.ReadStatus() == StatusDone && !st.AllowFailure && !st.Task.Skipped {
			bad = append(bad, "stage "+n+" never ran but is Done")
		}
		fmt.Printf("REPLAY: stage %s started=%v finished=%v status=%d errored=%v\n", n, started, finished, st.ReadStatus(), st.Task.Errored)
	}
	if hard && serr == nil {
		bad = append(bad, "a stage was interrupted but the run reports no error")
	}
	if len(bad) > 0 {
		fmt.Println("REPLAY: reproduced:", strings.Join(bad, "; "))
	} else {
		fmt.Println("REPLAY: not-reproduced (real code behaved on this timing)")
	}
}
