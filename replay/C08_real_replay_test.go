package config

// Native replay for VerifC08Real: the scenario's pipeline, a second pipeline and a direct run of the
// shared task through the real TaskRunner, executor and shell; every command appends what it sees.

import (
	"encoding/json"
	"fmt"
	"os"
	"path/filepath"
	"sort"
	"strings"
	"testing"

	"github.com/taskctl/taskctl/pkg/runner"
	"github.com/taskctl/taskctl/pkg/scheduler"
)

func TestVerifReplayC08Real(t *testing.T) {
	data, err := os.ReadFile(os.Getenv("VERIF_SCENARIO"))
	if err != nil {
		t.Skip("no scenario")
	}
	var sc struct {
		Args   []int64                `json:"args"`
		Inputs map[string]interface{} `json:"inputs"`
	}
	json.Unmarshal(data, &sc)
	str := func(k string) string {
		if s, ok := sc.Inputs[k].(string); ok {
			return s
		}
		return "p"
	}
	arr := int(sc.Args[0])
	named, _ := sc.Inputs["task-uses-a-named-context"].(bool)
	dir := t.TempDir()
	// the task's dir is a template over K; one directory per value of the domain, and s1's own
	for _, v := range []string{"p", "q", "r"} {
		os.MkdirAll(filepath.Join(dir, v+"-dir"), 0o755)
	}
	s1Dir := filepath.Join(dir, "s1-dir")
	os.MkdirAll(s1Dir, 0o755)
	trace := filepath.Join(dir, "trace")
	vt, wt, v0, v1, w0 := str("task.env.K"), str("task.var.K"), str("s0.env.K"), str("s1.env.K"), str("s0.var.K")
	// one file per command: stages run in parallel and appends to a shared file would interleave
	cmd := fmt.Sprintf(`echo "K=$K A0=${A0-unset} A1=${A1-unset} CTX=${CTX_ONLY-unset} varK={{.K}} dir=$(pwd)" > %s.$(date +%%s%%N)`, trace)
	taskDir := filepath.Join(dir, wt+"-dir")
	s0Dir := filepath.Join(dir, w0+"-dir")
	def := &taskDefinition{Name: "tk", Command: []string{cmd}, Dir: dir + "/{{.K}}-dir",
		Env: map[string]string{"K": vt}, Variables: map[string]string{"K": wt}}
	contexts := map[string]*runner.ExecutionContext{}
	ctxSeen := "unset"
	if named {
		def.Context = "ctx"
		c, err := buildContext(&contextDefinition{Env: map[string]string{"CTX_ONLY": "from-context"}})
		if err != nil {
			t.Fatal(err)
		}
		contexts["ctx"] = c
		ctxSeen = "from-context"
	}
	tk, err := buildTask(def, &loaderContext{Dir: dir})
	if err != nil {
		t.Fatal(err)
	}
	cfg := NewConfig()
	cfg.Tasks["tk"] = tk
	deps := [][][]string{{nil, nil, nil}, {nil, {"s0"}, {"s1"}}, {{"s1"}, {"s2"}, nil}}[arr]
	sds := []*stageDefinition{
		{Name: "s0", Task: "tk", DependsOn: deps[0], Env: map[string]string{"K": v0, "A0": "only-s0"}, Variables: map[string]string{"K": w0}},
		{Name: "s1", Task: "tk", DependsOn: deps[1], Dir: s1Dir, Env: map[string]string{"K": v1, "A1": "only-s1"}},
		{Name: "s2", Task: "tk", DependsOn: deps[2]},
	}
	g, _ := scheduler.NewExecutionGraph()
	if g, err = buildPipeline(g, sds, cfg); err != nil {
		t.Fatal(err)
	}
	g2, _ := scheduler.NewExecutionGraph()
	if g2, err = buildPipeline(g2, []*stageDefinition{{Name: "other", Task: "tk"}}, cfg); err != nil {
		t.Fatal(err)
	}
	r, _ := runner.NewTaskRunner(runner.WithContexts(contexts))
	r.Stdout, r.Stderr = &strings.Builder{}, &strings.Builder{}
	sd := scheduler.NewScheduler(r)
	e1 := sd.Schedule(g)
	e2 := sd.Schedule(g2)
	e3 := r.Run(cfg.Tasks["tk"])
	line := func(k, a0, a1, vk, d string) string {
		return fmt.Sprintf("K=%s A0=%s A1=%s CTX=%s varK=%s dir=%s", k, a0, a1, ctxSeen, vk, d)
	}
	want := []string{
		line(v0, "only-s0", "unset", w0, s0Dir), // s0
		line(v1, "unset", "only-s1", wt, s1Dir), // s1
		line(vt, "unset", "unset", wt, taskDir), // s2
		line(vt, "unset", "unset", wt, taskDir), // the other pipeline's stage
		line(vt, "unset", "unset", wt, taskDir), // the direct run
	}
	var got []string
	files, _ := filepath.Glob(trace + ".*")
	for _, f := range files {
		raw, _ := os.ReadFile(f)
		got = append(got, strings.TrimSpace(string(raw)))
	}
	sort.Strings(want)
	sort.Strings(got)
	fmt.Printf("REPLAY: errors %v %v %v\nREPLAY: commands saw  %q\nREPLAY: they should see %q\n", e1, e2, e3, got, want)
	if strings.Join(got, "\n") != strings.Join(want, "\n") || e1 != nil || e2 != nil || e3 != nil {
		fmt.Println("REPLAY: reproduced: a command saw another stage's override, or lost its own")
	} else {
		fmt.Println("REPLAY: not-reproduced (real code satisfies the property on this input)")
	}
}
