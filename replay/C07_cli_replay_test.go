package main

// Native replay for the CLI level of C07: the scenario's argument vector is
// run through the real urfave/cli app, loader, runner and shell.

import (
	"encoding/json"
	"fmt"
	"os"
	"os/exec"
	"path/filepath"
	"strings"
	"testing"
)

type c07Scenario struct {
	Harness string                 `json:"harness"`
	Args    []int64                `json:"args"`
	Inputs  map[string]interface{} `json:"inputs"`
}

func TestVerifReplayC07(t *testing.T) {
	data, err := os.ReadFile(os.Getenv("VERIF_SCENARIO"))
	if err != nil {
		t.Skip("no scenario")
	}
	var sc c07Scenario
	if err := json.Unmarshal(data, &sc); err != nil {
		t.Fatal(err)
	}
	dir := t.TempDir()
	trace := filepath.Join(dir, "trace")
	os.WriteFile(trace, nil, 0o644)
	mk := func(tag string) string {
		return fmt.Sprintf("n=$(wc -l < %s); echo %s >> %s; exit $(cat %s/st.$((n)))", trace, tag, trace, dir)
	}
	cfgText := fmt.Sprintf("tasks:\n  t1:\n    command: ['%s']\n  t2:\n    command: ['%s']\n  tp:\n    command: ['%s']\npipelines:\n  p1:\n    - task: tp\n", mk("t1"), mk("t2"), mk("p1"))
	if v, _ := sc.Inputs["config.summary"].(bool); v {
		cfgText += "summary: true\n"
	}
	cfgFile := filepath.Join(dir, "tasks.yaml")
	os.WriteFile(cfgFile, []byte(cfgText), 0o644)
	fails := func(k int) bool {
		b, _ := sc.Inputs[fmt.Sprintf("target-fails.%d", k)].(bool)
		return b
	}
	for k := 0; k < 8; k++ {
		st := "0"
		if fails(k) {
			st = "3"
		}
		os.WriteFile(filepath.Join(dir, fmt.Sprintf("st.%d", k)), []byte(st), 0o644)
	}
	if sc.Harness == "VerifC07Main" {
		bin := filepath.Join(dir, "taskctl-bin")
		if out, err := exec.Command("go", "build", "-o", bin, ".").CombinedOutput(); err != nil {
			t.Fatalf("build: %v %s", err, out)
		}
		runFails, _ := sc.Inputs["run-fails"].(bool)
		if runFails {
			os.WriteFile(filepath.Join(dir, "st.0"), []byte("3"), 0o644)
		}
		err := exec.Command(bin, "--raw", "-c", cfgFile, "t1").Run()
		code := 0
		if ee, ok := err.(*exec.ExitError); ok {
			code = ee.ExitCode()
		} else if err != nil {
			t.Fatal(err)
		}
		fmt.Printf("REPLAY: target fails=%v, process exit status %d\n", runFails, code)
		if (code != 0) != runFails {
			fmt.Println("REPLAY: reproduced: process exit status does not reflect the target's failure")
		} else {
			fmt.Println("REPLAY: not-reproduced (real code satisfies the property on this input)")
		}
		return
	}
	n := int(sc.Args[0])
	var words []string
	for i := 0; i < n; i++ {
		w, _ := sc.Inputs[fmt.Sprintf("arg.%d", i)].(string)
		words = append(words, w)
	}
	mode := 0
	args := []string{"taskctl", "--raw", "--quiet", "-c", cfgFile}
	// deep scenarios carry the value of the --summary flag (a flag of the root command and of `run`)
	summary := ""
	if v, ok := sc.Inputs["flag.summary"].(bool); ok {
		summary = fmt.Sprintf("--summary=%v", v)
	}
	if summary != "" && sc.Harness == "VerifC07Root" {
		args = append(args, summary)
	}
	switch sc.Harness {
	case "VerifC07Run":
		args = append(args, "run")
		if summary != "" {
			args = append(args, summary)
		}
	case "VerifC07RunTask":
		args = append(args, "run", "task")
		mode = 1
	}
	args = append(args, words...)
	// reference
	var want []string
	mustFail := false
	k := 0
	for _, w := range words {
		if w == "--" {
			break
		}
		isTask := w == "t1" || w == "t2"
		isPipe := w == "p1" && mode == 0
		if !isTask && !isPipe {
			mustFail = true
			break
		}
		want = append(want, w)
		f := fails(k)
		k++
		if f {
			mustFail = true
			break
		}
	}
	if n == 0 {
		mustFail = sc.Harness != "VerifC07Root"
	}
	// the same pipeline named twice: its graph object is shared, the second Schedule finds every stage
	// Done and starts nothing - the second "run" cannot be observed through the commands it executes
	p1s := 0
	for _, w := range want {
		if w == "p1" {
			p1s++
		}
	}
	if p1s > 1 {
		fmt.Println("REPLAY: not-replayable (the same pipeline is a target twice: its second run has no observable commands)")
		return
	}
	old := os.Stdout
	devnull, _ := os.OpenFile(os.DevNull, os.O_WRONLY, 0)
	os.Stdout = devnull
	runErr := makeApp().Run(args)
	os.Stdout = old
	raw, _ := os.ReadFile(trace)
	got := strings.Fields(string(raw))
	fmt.Printf("REPLAY: args=%v expected targets %v, ran %v, err=%v\n", words, want, got, runErr)
	var bad []string
	if strings.Join(got, " ") != strings.Join(want, " ") {
		bad = append(bad, "targets run differ from command-line order up to the first failure")
	}
	if (runErr != nil) != mustFail {
		bad = append(bad, "error does not match: a target failed/unknown ⇔ the action fails")
	}
	if len(bad) > 0 {
		fmt.Println("REPLAY: reproduced:", strings.Join(bad, "; "))
	} else {
		fmt.Println("REPLAY: not-reproduced (real code satisfies the property on this input)")
	}
}
