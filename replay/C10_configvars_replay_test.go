package config

// Native replay for C10 (configuration level): a real YAML file with a `variables:` section,
// loaded by the real Loader (yaml, mapstructure, mergo).

import (
	"encoding/json"
	"fmt"
	"os"
	"path/filepath"
	"testing"
)

func TestVerifReplayC10ConfigVars(t *testing.T) {
	data, err := os.ReadFile(os.Getenv("VERIF_SCENARIO"))
	if err != nil {
		t.Skip("no scenario")
	}
	var sc struct {
		Inputs map[string]interface{} `json:"inputs"`
	}
	json.Unmarshal(data, &sc)
	v, _ := sc.Inputs["config.X"].(string)
	dir := t.TempDir()
	os.Setenv("HOME", dir)
	file := filepath.Join(dir, "tasks.yaml")
	os.WriteFile(file, []byte(fmt.Sprintf("variables:\n  X: %q\ntasks:\n  t1:\n    command: ['echo {{.X}}']\n", v)), 0o644)
	cl := NewConfigLoader(NewConfig())
	cfg, lerr := cl.Load(file)
	if lerr != nil || cfg == nil {
		fmt.Println("REPLAY: reproduced: a configuration with a variables section failed to load:", lerr)
		return
	}
	got, _ := cfg.Variables.Get("X").(string)
	fmt.Printf("REPLAY: variables: {X: %q} -> cfg.Variables has X=%v value %q, Root=%v TempDir=%v\n", v, cfg.Variables.Has("X"), got, cfg.Variables.Has("Root"), cfg.Variables.Has("TempDir"))
	if !cfg.Variables.Has("X") || got != v || !cfg.Variables.Has("Root") || !cfg.Variables.Has("TempDir") {
		fmt.Println("REPLAY: reproduced: configuration-level variables are not available after loading")
	} else {
		fmt.Println("REPLAY: not-reproduced (real loader satisfies the property on this input)")
	}
}
