package config

// Native replay for C08: real buildTask/buildPipeline and Scheduler with a recording runner.

import (
	"encoding/json"
	"fmt"
	"os"
	"strings"
	"sync"
	"testing"
	"time"

	"github.com/taskctl/taskctl/pkg/scheduler"
	"github.com/taskctl/taskctl/pkg/task"
)

type c08Rec struct {
	mu   sync.Mutex
	runs []map[string]string
}

func c08s(v interface{}) string { s, _ := v.(string); return s }

func (r *c08Rec) Run(t *task.Task) error {
	m := map[string]string{"stage": c08s(t.Variables.Get(".Stage.Name")), "envK": c08s(t.Env.Get("K")), "envT": c08s(t.Env.Get("T")),
		"varK": c08s(t.Variables.Get("K")), "varT": c08s(t.Variables.Get("T")), "dir": t.Dir}
	time.Sleep(60 * time.Millisecond)
	r.mu.Lock()
	r.runs = append(r.runs, m)
	r.mu.Unlock()
	return nil
}
func (r *c08Rec) Cancel() {}
func (r *c08Rec) Finish() {}

func TestVerifReplayC08(t *testing.T) {
	data, err := os.ReadFile(os.Getenv("VERIF_SCENARIO"))
	if err != nil {
		t.Skip("no scenario")
	}
	var sc struct {
		Args   []int64                `json:"args"`
		Inputs map[string]interface{} `json:"inputs"`
	}
	json.Unmarshal(data, &sc)
	str := func(k string) string { s, _ := sc.Inputs[k].(string); return s }
	arr := int(sc.Args[0])
	vt, wt, v0, w0, v1 := str("task.env.K"), str("task.var.K"), str("s0.env.K"), str("s0.var.K"), str("s1.env.K")
	w3 := str("s3.var.K")
	def := &taskDefinition{Name: "tk", Command: []string{"true"}, Dir: "/task-dir",
		Env: map[string]string{"K": vt, "T": "task-only"}, Variables: map[string]string{"K": wt, "T": "task-var"}}
	tk, err := buildTask(def, &loaderContext{Dir: "/proj"})
	if err != nil {
		t.Fatal(err)
	}
	cfg := NewConfig()
	cfg.Tasks["tk"] = tk
	deps := [][][]string{{nil, nil, nil, nil}, {nil, {"s0"}, {"s1"}, {"s2"}}, {{"s1"}, {"s2"}, {"s3"}, nil}, {nil, {"s0"}, {"s0"}, {"s0"}}}[arr]
	sds := []*stageDefinition{
		{Name: "s0", Task: "tk", DependsOn: deps[0], Dir: "/s0-dir", Env: map[string]string{"K": v0}, Variables: map[string]string{"K": w0}},
		{Name: "s1", Task: "tk", DependsOn: deps[1], Env: map[string]string{"K": v1}},
		{Name: "s2", Task: "tk", DependsOn: deps[2]},
		{Name: "s3", Task: "tk", DependsOn: deps[3], Variables: map[string]string{"K": w3}},
	}
	g, _ := scheduler.NewExecutionGraph()
	g, err = buildPipeline(g, sds, cfg)
	if err != nil {
		t.Fatal(err)
	}
	g2, _ := scheduler.NewExecutionGraph()
	g2, _ = buildPipeline(g2, []*stageDefinition{{Name: "other", Task: "tk"}}, cfg)
	rec := &c08Rec{}
	sd := scheduler.NewScheduler(rec)
	sd.Schedule(g)
	sd.Schedule(g2)
	var bad []string
	for _, m := range rec.runs {
		wantEnvK, wantVarK, wantDir := vt, wt, "/task-dir"
		switch m["stage"] {
		case "s0":
			wantEnvK, wantVarK, wantDir = v0, w0, "/s0-dir"
		case "s1":
			wantEnvK = v1
		case "s3":
			wantVarK = w3
		}
		if m["envK"] != wantEnvK || m["envT"] != "task-only" || m["varK"] != wantVarK || m["varT"] != "task-var" || m["dir"] != wantDir {
			bad = append(bad, fmt.Sprintf("stage %s saw %v, want envK=%s varK=%s dir=%s", m["stage"], m, wantEnvK, wantVarK, wantDir))
		}
	}
	d := cfg.Tasks["tk"]
	if c08s(d.Env.Get("K")) != vt || d.Variables.Has(".Stage.Name") || c08s(d.Variables.Get("K")) != wt || d.Dir != "/task-dir" {
		bad = append(bad, fmt.Sprintf("a direct run now sees env K=%v STAGE=%v var K=%v dir=%s", d.Env.Get("K"), d.Env.Get("STAGE"), d.Variables.Get("K"), d.Dir))
	}
	fmt.Printf("REPLAY: runs=%v\n", rec.runs)
	if len(bad) > 0 {
		fmt.Println("REPLAY: reproduced:", strings.Join(bad, "; "))
	} else {
		fmt.Println("REPLAY: not-reproduced (real code satisfies the property on this input)")
	}
}
