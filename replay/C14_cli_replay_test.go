package main

import (
	"encoding/json"
	"fmt"
	"os"
	"path/filepath"
	"strings"
	"testing"
)

func TestVerifReplayC14CLI(t *testing.T) {
	data, err := os.ReadFile(os.Getenv("VERIF_SCENARIO"))
	if err != nil {
		t.Skip("no scenario")
	}
	var sc struct {
		Args   []int64                `json:"args"`
		Inputs map[string]interface{} `json:"inputs"`
	}
	json.Unmarshal(data, &sc)
	fails, _ := sc.Inputs["target-fails"].(bool)
	dir := t.TempDir()
	trace := filepath.Join(dir, "trace")
	st := 0
	if fails {
		st = 3
	}
	cfg := fmt.Sprintf("contexts:\n  ctx:\n    up: ['echo up >> %s']\n    down: ['echo down >> %s']\ntasks:\n  t1:\n    context: ctx\n    command: ['echo t1 >> %s; exit %d']\npipelines:\n  p1:\n    - task: t1\n", trace, trace, trace, st)
	cfgFile := filepath.Join(dir, "tasks.yaml")
	os.WriteFile(cfgFile, []byte(cfg), 0o644)
	target := "t1"
	if sc.Args[0] == 1 {
		target = "p1"
	}
	old := os.Stdout
	devnull, _ := os.OpenFile(os.DevNull, os.O_WRONLY, 0)
	os.Stdout = devnull
	runErr := makeApp().Run([]string{"taskctl", "--raw", "--quiet", "-c", cfgFile, target})
	os.Stdout = old
	raw, _ := os.ReadFile(trace)
	got := strings.Fields(string(raw))
	fmt.Printf("REPLAY: target %s fails=%v trace=%v err=%v\n", target, fails, got, runErr)
	if strings.Join(got, " ") != "up t1 down" {
		fmt.Println("REPLAY: reproduced: the context's down command did not run exactly once after the target")
	} else {
		fmt.Println("REPLAY: not-reproduced (real code satisfies the property on this input)")
	}
}

func TestVerifReplayC14CLIMulti(t *testing.T) {
	data, err := os.ReadFile(os.Getenv("VERIF_SCENARIO"))
	if err != nil {
		t.Skip("no scenario")
	}
	var sc struct {
		Args   []int64                `json:"args"`
		Inputs map[string]interface{} `json:"inputs"`
	}
	json.Unmarshal(data, &sc)
	mode, second := int(sc.Args[0]), int(sc.Args[1])
	fails := func(cmd string) bool {
		for k, v := range sc.Inputs {
			if strings.HasPrefix(k, "fails."+cmd+".") {
				if b, _ := v.(bool); b {
					return true
				}
			}
		}
		return false
	}
	st := func(cmd string) int {
		if fails(cmd) {
			return 1
		}
		return 0
	}
	dir := t.TempDir()
	trace := filepath.Join(dir, "trace")
	cfg := fmt.Sprintf("contexts:\n  ctx:\n    up: ['echo up >> %s']\n    down: ['echo down >> %s']\ntasks:\n  t1:\n    context: ctx\n    command: ['echo t1 >> %s; exit %d']\n  t2:\n    context: ctx\n    command: ['echo t2 >> %s; exit %d']\npipelines:\n  p1:\n    - task: t2\n",
		trace, trace, trace, st("t1-cmd"), trace, st("t2-cmd"))
	cfgFile := filepath.Join(dir, "tasks.yaml")
	os.WriteFile(cfgFile, []byte(cfg), 0o644)
	args := []string{"taskctl", "--raw", "--quiet", "-c", cfgFile}
	switch mode {
	case 1:
		args = append(args, "run")
	case 2:
		args = append(args, "run", "task")
	}
	secondName := "t2"
	if second == 1 {
		secondName = "p1"
	}
	args = append(args, "t1", secondName)
	old := os.Stdout
	devnull, _ := os.OpenFile(os.DevNull, os.O_WRONLY, 0)
	os.Stdout = devnull
	runErr := makeApp().Run(args)
	os.Stdout = old
	raw, _ := os.ReadFile(trace)
	got := strings.Fields(string(raw))
	want := []string{"up", "t1"}
	if !fails("t1-cmd") {
		want = append(want, "t2")
	}
	want = append(want, "down")
	fmt.Printf("REPLAY: %v -> trace %v, expected %v, err=%v\n", args[5:], got, want, runErr)
	if strings.Join(got, " ") != strings.Join(want, " ") {
		fmt.Println("REPLAY: reproduced: with several targets sharing a context, up/down did not run exactly once around all of them")
	} else {
		fmt.Println("REPLAY: not-reproduced (real code satisfies the property on this input)")
	}
}
