package main

import (
	"encoding/json"
	"fmt"
	"os"
	"path/filepath"
	"strings"
	"testing"
)

func TestVerifReplayC14CLI(t *testing.T) {
	data, err := os.ReadFile(os.Getenv("VERIF_SCENARIO"))
	if err != nil {
		t.Skip("no scenario")
	}
	var sc struct {
		Args   []int64                `json:"args"`
		Inputs map[string]interface{} `json:"inputs"`
	}
	json.Unmarshal(data, &sc)
	fails, _ := sc.Inputs["target-fails"].(bool)
	dir := t.TempDir()
	trace := filepath.Join(dir, "trace")
	st := 0
	if fails {
		st = 3
	}
	cfg := fmt.Sprintf("contexts:\n  ctx:\n    up: ['echo up >> %s']\n    down: ['echo down >> %s']\ntasks:\n  t1:\n    context: ctx\n    command: ['echo t1 >> %s; exit %d']\npipelines:\n  p1:\n    - task: t1\n", trace, trace, trace, st)
	cfgFile := filepath.Join(dir, "tasks.yaml")
	os.WriteFile(cfgFile, []byte(cfg), 0o644)
	target := "t1"
	if sc.Args[0] == 1 {
		target = "p1"
	}
	old := os.Stdout
	devnull, _ := os.OpenFile(os.DevNull, os.O_WRONLY, 0)
	os.Stdout = devnull
	runErr := makeApp().Run([]string{"taskctl", "--raw", "--quiet", "-c", cfgFile, target})
	os.Stdout = old
	raw, _ := os.ReadFile(trace)
	got := strings.Fields(string(raw))
	fmt.Printf("REPLAY: target %s fails=%v trace=%v err=%v\n", target, fails, got, runErr)
	if strings.Join(got, " ") != "up t1 down" {
		fmt.Println("REPLAY: reproduced: the context's down command did not run exactly once after the target")
	} else {
		fmt.Println("REPLAY: not-reproduced (real code satisfies the property on this input)")
	}
}
