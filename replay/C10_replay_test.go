package main

// Native replay for C10: real app (flags, loader, runner, scheduler, text/template, shell).

import (
	"encoding/json"
	"fmt"
	"os"
	"path/filepath"
	"strings"
	"testing"
)

type c10Scenario struct {
	Harness string                 `json:"harness"`
	Args    []int64                `json:"args"`
	Inputs  map[string]interface{} `json:"inputs"`
}

func TestVerifReplayC10(t *testing.T) {
	data, err := os.ReadFile(os.Getenv("VERIF_SCENARIO"))
	if err != nil {
		t.Skip("no scenario")
	}
	var sc c10Scenario
	if err := json.Unmarshal(data, &sc); err != nil {
		t.Fatal(err)
	}
	dir := t.TempDir()
	trace := filepath.Join(dir, "trace")
	cfgFile := filepath.Join(dir, "tasks.yaml")
	str := func(k string) string { s, _ := sc.Inputs[k].(string); return s }
	preset := map[string]string{}
	run := func(args []string) error {
		old := os.Stdout
		devnull, _ := os.OpenFile(os.DevNull, os.O_WRONLY, 0)
		os.Stdout = devnull
		defer func() { os.Stdout = old }()
		app := makeApp()
		// "configuration level" = what cfg.Variables holds once the configuration is loaded. The loader
		// merges the file INTO this object, so presetting it is how that level is realised natively
		// (the file's own `variables:` section does not survive Config.merge - a separate, known defect).
		for k, v := range preset {
			cfg.Variables.Set(k, v)
		}
		return app.Run(args)
	}
	if sc.Harness == "VerifC10Args" {
		n := int(sc.Args[0])
		words := []string{"t1"}
		for i := 0; i < n; i++ {
			words = append(words, str(fmt.Sprintf("word.%d", i)))
		}
		cfgText := fmt.Sprintf("tasks:\n  t1:\n    command:\n      - \"echo 'Args=[{{.Args}}] List=[{{range .ArgsList}}<{{.}}>{{end}}]' ARGS=[$ARGS] >> %s\"\n", trace)
		os.WriteFile(cfgFile, []byte(cfgText), 0o644)
		run(append([]string{"taskctl", "--raw", "--quiet", "-c", cfgFile}, words...))
		var after []string
		seen := false
		ran := 0
		counting := true
		for _, w := range words {
			if seen {
				after = append(after, w)
			} else if w == "--" {
				seen = true
			} else if counting && w == "t1" {
				ran++
			} else {
				counting = false
			}
		}
		list := ""
		for _, a := range after {
			list += "<" + a + ">"
		}
		exp := fmt.Sprintf("Args=[%s] List=[%s] ARGS=[%s]", strings.Join(after, " "), list, strings.Join(after, " "))
		raw, _ := os.ReadFile(trace)
		lines := strings.Split(strings.TrimSpace(string(raw)), "\n")
		fmt.Printf("REPLAY: argv=%q expected %d run(s) printing %q; observed %q\n", words, ran, exp, lines)
		bad := false
		if ran > 0 {
			if len(lines) != ran {
				bad = true
			}
			for _, l := range lines {
				if l != exp {
					bad = true
				}
			}
		}
		if bad {
			fmt.Println("REPLAY: reproduced: arguments after the first -- did not reach the task verbatim")
		} else {
			fmt.Println("REPLAY: not-reproduced (real code satisfies the property on this input)")
		}
		return
	}
	mask, viaStage := int(sc.Args[0]), sc.Args[1] == 1
	levels := []string{"config", "set", "task", "stage"}
	val := make([]string, 4)
	has := make([]bool, 4)
	want, defined := "", false
	for l := range levels {
		has[l] = mask&(1<<l) != 0
		if has[l] {
			val[l] = str("value." + levels[l])
			want, defined = val[l], true
		}
	}
	var sb strings.Builder
	if has[0] {
		preset["X"] = val[0]
	}
	fmt.Fprintf(&sb, "tasks:\n  t1:\n    command:\n      - \"echo X={{.X}} >> %s\"\n", trace)
	if has[2] {
		fmt.Fprintf(&sb, "    variables:\n      X: %q\n", val[2])
	}
	if viaStage {
		sb.WriteString("pipelines:\n  p1:\n    - task: t1\n      name: s1\n")
		if has[3] {
			fmt.Fprintf(&sb, "      variables:\n        X: %q\n", val[3])
		}
	}
	second, _ := sc.Inputs["a-second-stage-of-the-same-task-without-stage-variables"].(bool)
	if second && viaStage && has[3] {
		sb.WriteString("    - task: t1\n      name: s2\n      depends_on: [s1]\n")
	}
	os.WriteFile(cfgFile, []byte(sb.String()), 0o644)
	args := []string{"taskctl", "--raw", "--quiet", "-c", cfgFile}
	if has[1] {
		args = append(args, "--set", "X="+val[1])
	}
	if viaStage {
		args = append(args, "p1")
	} else {
		args = append(args, "t1")
	}
	runErr := run(args)
	raw, _ := os.ReadFile(trace)
	got := strings.TrimSpace(string(raw))
	exp := ""
	if defined {
		exp = "X=" + want
	}
	if second && viaStage && has[3] {
		// the second stage sees the highest level below the stage level; undefined there fails the run
		w2, d2 := "", false
		for l := 0; l < 3; l++ {
			if has[l] {
				w2, d2 = val[l], true
			}
		}
		if d2 {
			exp += "\nX=" + w2
		}
		defined = d2
	}
	fmt.Printf("REPLAY: levels=%v values=%q expected trace %q (error iff undefined), observed %q err=%v\n", has, val, exp, got, runErr)
	if got != exp || (runErr != nil) != !defined {
		fmt.Println("REPLAY: reproduced: template variable did not resolve by precedence")
	} else {
		fmt.Println("REPLAY: not-reproduced (real code satisfies the property on this input)")
	}
}
