package watch

// Native replay for C20: real NewWatcher (real doublestar globbing on a temp tree for the
// selection part) and the real handler with the real TaskRunner, executor and shell.

import (
	"encoding/json"
	"fmt"
	"os"
	"path/filepath"
	"sort"
	"strings"
	"testing"
	"time"

	"github.com/fsnotify/fsnotify"

	"github.com/taskctl/taskctl/pkg/runner"
	"github.com/taskctl/taskctl/pkg/task"
)

func TestVerifReplayC20(t *testing.T) {
	data, err := os.ReadFile(os.Getenv("VERIF_SCENARIO"))
	if err != nil {
		t.Skip("no scenario")
	}
	var sc struct {
		Harness string                 `json:"harness"`
		Args    []int64                `json:"args"`
		Inputs  map[string]interface{} `json:"inputs"`
	}
	json.Unmarshal(data, &sc)
	bv := func(k string) bool { v, _ := sc.Inputs[k].(bool); return v }
	dir := t.TempDir()
	if sc.Harness == "VerifC20Paths" {
		// realise the symbolic match relation with real files: pattern i matches exactly the files whose
		// name carries the letter of the pattern
		ni, ne := int(sc.Args[0]), int(sc.Args[1])
		paths := []string{"p0", "p1", "p2"}
		want := map[string]bool{}
		for k, p := range paths {
			name := p
			inc, exc := false, false
			for i := 0; i < ni; i++ {
				if bv(fmt.Sprintf("include.%d.matches.%s", i, p)) {
					name += fmt.Sprintf("-i%d", i)
					inc = true
				}
			}
			for j := 0; j < ne; j++ {
				if bv(fmt.Sprintf("exclude.%d.matches.%s", j, p)) {
					name += fmt.Sprintf("-e%d", j)
					exc = true
				}
			}
			paths[k] = filepath.Join(dir, name)
			os.WriteFile(paths[k], nil, 0o644)
			if inc && !exc {
				want[paths[k]] = true
			}
		}
		var incl, excl []string
		for i := 0; i < ni; i++ {
			incl = append(incl, filepath.Join(dir, fmt.Sprintf("*-i%d*", i)))
		}
		for j := 0; j < ne; j++ {
			excl = append(excl, filepath.Join(dir, fmt.Sprintf("*-e%d*", j)))
		}
		w, err := NewWatcher("w", nil, incl, excl, task.FromCommands("true"))
		if err != nil {
			t.Fatal(err)
		}
		got := map[string]bool{}
		for _, p := range w.paths {
			got[p] = true
		}
		var g, wl []string
		for p := range got {
			g = append(g, filepath.Base(p))
		}
		for p := range want {
			wl = append(wl, filepath.Base(p))
		}
		sort.Strings(g)
		sort.Strings(wl)
		fmt.Printf("REPLAY: observed %v, expected %v\n", g, wl)
		if strings.Join(g, " ") != strings.Join(wl, " ") {
			fmt.Println("REPLAY: reproduced: the watcher does not observe exactly the included, non-excluded paths")
		} else {
			fmt.Println("REPLAY: not-reproduced (real code satisfies the property on this input)")
		}
		return
	}
	names := []string{eventCreate, eventWrite, eventRemove, eventRename, eventChmod}
	ops := []fsnotify.Op{fsnotify.Create, fsnotify.Write, fsnotify.Remove, fsnotify.Rename, fsnotify.Chmod}
	var events []string
	sub := make([]bool, 5)
	any := false
	for i, n := range names {
		sub[i] = bv("subscribed." + n)
		if sub[i] {
			events = append(events, n)
			any = true
		}
	}
	trace := filepath.Join(dir, "trace")
	tk := task.FromCommands(fmt.Sprintf(`echo "ran $EventName $EventPath" >> %s`, trace))
	tk.Name = "wt"
	w, err := NewWatcher("w", events, nil, nil, tk)
	if err != nil {
		t.Fatal(err)
	}
	r, _ := runner.NewTaskRunner()
	r.Stdout, r.Stderr = &strings.Builder{}, &strings.Builder{}
	w.r = r
	var bad []string
	n := int(sc.Args[0])
	for e := 0; e < n; e++ {
		ty := 0
		if f, ok := sc.Inputs[fmt.Sprintf("event.%d.type", e)].(float64); ok {
			ty = int(f)
		}
		os.WriteFile(trace, nil, 0o644)
		w.eventsWg.Add(1)
		handled := make(chan struct{})
		go func() { w.handle(fsnotify.Event{Name: "some/file", Op: ops[ty]}); close(handled) }()
		select {
		case <-handled:
		case <-time.After(10 * time.Second):
			fmt.Printf("REPLAY: reproduced: the handler of event %d (%s) did not return within 10 s\n", e, names[ty])
			return
		}
		raw, _ := os.ReadFile(trace)
		got := strings.TrimSpace(string(raw))
		want := ""
		if !any || sub[ty] {
			want = "ran " + names[ty] + " some/file"
		}
		fmt.Printf("REPLAY: event %d type=%s subscribed=%v: task output %q, expected %q\n", e, names[ty], want != "", got, want)
		if got != want {
			bad = append(bad, fmt.Sprintf("event %d (%s): task ran %q, expected %q", e, names[ty], got, want))
		}
	}
	if len(bad) > 0 {
		fmt.Println("REPLAY: reproduced:", strings.Join(bad, "; "))
	} else {
		fmt.Println("REPLAY: not-reproduced (real code satisfies the property on this input)")
	}
}

// Replay of VerifC20Loop scenarios: the real Watcher.Run over real files with a real fsnotify
// watcher; the events of the scenario are put on the watcher's own event channel (as the
// repository's TestNewWatcher does), one per polling round; then Close.
func TestVerifReplayC20Loop(t *testing.T) {
	data, err := os.ReadFile(os.Getenv("VERIF_SCENARIO"))
	if err != nil {
		t.Skip("no scenario")
	}
	var sc struct {
		Args   []int64                `json:"args"`
		Label  string                 `json:"label"`
		Inputs map[string]interface{} `json:"inputs"`
	}
	json.Unmarshal(data, &sc)
	bv := func(k string) bool { v, _ := sc.Inputs[k].(bool); return v }
	dir := t.TempDir()
	names := []string{eventCreate, eventWrite, eventRemove, eventRename, eventChmod}
	ops := []fsnotify.Op{fsnotify.Create, fsnotify.Write, fsnotify.Remove, fsnotify.Rename, fsnotify.Chmod}
	var events []string
	sub := make([]bool, 5)
	any := false
	for i, n := range names {
		sub[i] = bv("subscribed." + n)
		if sub[i] {
			events = append(events, n)
			any = true
		}
	}
	if strings.Contains(sc.Label, "every-selected-path-is-registered") {
		// the harness's tree for real: a directory, a file two levels below it, a plain file, all three
		// selected; real file operations on the deep file must reach the task (inotify is not recursive)
		deep := filepath.Join(dir, "d", "sub", "f.txt")
		os.MkdirAll(filepath.Dir(deep), 0o755)
		os.WriteFile(deep, []byte("x"), 0o644)
		plain := filepath.Join(dir, "g.txt")
		os.WriteFile(plain, []byte("x"), 0o644)
		trace := filepath.Join(dir, "trace.log")
		tk := task.FromCommands(fmt.Sprintf(`echo "ran [$EventName] [$EventPath]" >> %s`, trace))
		tk.Name = "wt"
		w, err := NewWatcher("w", events, []string{filepath.Join(dir, "d"), deep, plain}, nil, tk)
		if err != nil {
			t.Fatal(err)
		}
		r, _ := runner.NewTaskRunner()
		r.Stdout, r.Stderr = &strings.Builder{}, &strings.Builder{}
		go w.Run(r)
		time.Sleep(1500 * time.Millisecond)
		producible := !any || sub[1] || sub[4] || sub[3]
		if !producible {
			fmt.Println("REPLAY: not-replayable (no subscribed event type can be produced on an existing file)")
			return
		}
		f, _ := os.OpenFile(deep, os.O_APPEND|os.O_WRONLY, 0o644)
		f.WriteString("y")
		f.Close()
		time.Sleep(1500 * time.Millisecond)
		os.Chmod(deep, 0o600)
		time.Sleep(1500 * time.Millisecond)
		os.Rename(deep, deep+".moved")
		time.Sleep(3 * time.Second)
		raw, _ := os.ReadFile(trace)
		fmt.Printf("REPLAY: selected %q; after write, chmod and rename of the deep file the task printed %q\n", w.paths, string(raw))
		if !strings.Contains(string(raw), "["+deep+"]") {
			fmt.Println("REPLAY: reproduced: file operations on a selected path never ran the task (the path is not observed)")
		} else {
			fmt.Println("REPLAY: not-reproduced (the selected path is observed)")
		}
		return
	}
	n := int(sc.Args[0])
	var files []string
	for e := 0; e < 4; e++ {
		f := filepath.Join(dir, fmt.Sprintf("f%d", e))
		os.WriteFile(f, nil, 0o644)
		files = append(files, f)
	}
	trace := filepath.Join(dir, "trace.log")
	tk := task.FromCommands(fmt.Sprintf(`echo "ran [$EventName] [$EventPath]" >> %s`, trace))
	tk.Name = "wt"
	w, err := NewWatcher("w", events, []string{filepath.Join(dir, "f*")}, nil, tk)
	if err != nil {
		t.Fatal(err)
	}
	r, _ := runner.NewTaskRunner()
	r.Stdout, r.Stderr = &strings.Builder{}, &strings.Builder{}
	returned := make(chan error, 1)
	go func() { returned <- w.Run(r) }()
	tys := make([]int, n)
	// A counterexample to "served events leave the watcher as it was" is a one-step change of the
	// watcher's state; whether it matters shows when the step is repeated: the scenario's events are
	// delivered 40 times over, then one more subscribed event must still run the task.
	rounds := 1
	amplified := strings.Contains(sc.Label, "leave-the-watcher-as-it-was")
	if amplified {
		rounds = 40
	}
	for round := 0; round < rounds; round++ {
		for e := 0; e < n; e++ {
			if f, ok := sc.Inputs[fmt.Sprintf("event.%d.type", e)].(float64); ok {
				tys[e] = int(f)
			}
			select {
			case w.fsw.Events <- fsnotify.Event{Name: files[e], Op: ops[tys[e]]}:
			case <-time.After(5 * time.Second):
				fmt.Printf("REPLAY: reproduced: the watcher stopped taking events (event %d of round %d not received within 5 s)\n", e, round)
				return
			}
			time.Sleep(1500 * time.Millisecond) // the handler of this event runs before the next one arrives
		}
	}
	lastTy := -1
	if amplified {
		lastTy = 1 // write
		for i := range names {
			if sub[i] {
				lastTy = i
				break
			}
		}
		select {
		case w.fsw.Events <- fsnotify.Event{Name: files[3], Op: ops[lastTy]}:
			time.Sleep(2500 * time.Millisecond)
		case <-time.After(5 * time.Second):
			fmt.Printf("REPLAY: reproduced: after %d rounds of the scenario's events the watcher takes no further event\n", rounds)
			return
		}
	}
	closed := make(chan struct{})
	go func() { w.Close(); close(closed) }()
	var bad []string
	select {
	case <-closed:
	case <-time.After(10 * time.Second):
		bad = append(bad, "Close does not return within 10 s")
	}
	select {
	case rerr := <-returned:
		if rerr != nil {
			bad = append(bad, "Run returned "+rerr.Error())
		}
	case <-time.After(10 * time.Second):
		bad = append(bad, "Run does not return within 10 s after Close")
	}
	time.Sleep(300 * time.Millisecond)
	raw, _ := os.ReadFile(trace)
	lines := strings.Split(strings.TrimSpace(string(raw)), "\n")
	if amplified {
		want := fmt.Sprintf("ran [%s] [%s]", names[lastTy], files[3])
		found := false
		for _, l := range lines {
			found = found || l == want
		}
		if !found {
			bad = append(bad, fmt.Sprintf("after %d rounds of the scenario's events a subscribed %s event no longer runs the task", rounds, names[lastTy]))
		}
	}
	for e := 0; e < n; e++ {
		line := fmt.Sprintf("ran [%s] [%s]", names[tys[e]], files[e])
		ran := false
		for _, l := range lines {
			if l == line {
				ran = true
			} else if strings.HasSuffix(l, "["+files[e]+"]") {
				bad = append(bad, fmt.Sprintf("event %d: the task saw %q, expected %q", e, l, line))
			}
		}
		want := !any || sub[tys[e]]
		if ran != want {
			bad = append(bad, fmt.Sprintf("event %d (%s, subscribed=%v): task ran=%v", e, names[tys[e]], want, ran))
		}
	}
	fmt.Printf("REPLAY: events=%v subscribed=%v trace=%q\n", tys, events, lines)
	if len(bad) > 0 {
		fmt.Println("REPLAY: reproduced:", strings.Join(bad, "; "))
	} else {
		fmt.Println("REPLAY: not-reproduced (real code satisfies the property on this input)")
	}
}
