package watch

// Native replay for C20: real NewWatcher (real doublestar globbing on a temp tree for the
// selection part) and the real handler with the real TaskRunner, executor and shell.

import (
	"encoding/json"
	"fmt"
	"os"
	"path/filepath"
	"sort"
	"strings"
	"testing"

	"github.com/fsnotify/fsnotify"

	"github.com/taskctl/taskctl/pkg/runner"
	"github.com/taskctl/taskctl/pkg/task"
)

func TestVerifReplayC20(t *testing.T) {
	data, err := os.ReadFile(os.Getenv("VERIF_SCENARIO"))
	if err != nil {
		t.Skip("no scenario")
	}
	var sc struct {
		Harness string                 `json:"harness"`
		Args    []int64                `json:"args"`
		Inputs  map[string]interface{} `json:"inputs"`
	}
	json.Unmarshal(data, &sc)
	bv := func(k string) bool { v, _ := sc.Inputs[k].(bool); return v }
	dir := t.TempDir()
	if sc.Harness == "VerifC20Paths" {
		// realise the symbolic match relation with real files: pattern i matches exactly the files whose
		// name carries the letter of the pattern
		ni, ne := int(sc.Args[0]), int(sc.Args[1])
		paths := []string{"p0", "p1", "p2"}
		want := map[string]bool{}
		for k, p := range paths {
			name := p
			inc, exc := false, false
			for i := 0; i < ni; i++ {
				if bv(fmt.Sprintf("include.%d.matches.%s", i, p)) {
					name += fmt.Sprintf("-i%d", i)
					inc = true
				}
			}
			for j := 0; j < ne; j++ {
				if bv(fmt.Sprintf("exclude.%d.matches.%s", j, p)) {
					name += fmt.Sprintf("-e%d", j)
					exc = true
				}
			}
			paths[k] = filepath.Join(dir, name)
			os.WriteFile(paths[k], nil, 0o644)
			if inc && !exc {
				want[paths[k]] = true
			}
		}
		var incl, excl []string
		for i := 0; i < ni; i++ {
			incl = append(incl, filepath.Join(dir, fmt.Sprintf("*-i%d*", i)))
		}
		for j := 0; j < ne; j++ {
			excl = append(excl, filepath.Join(dir, fmt.Sprintf("*-e%d*", j)))
		}
		w, err := NewWatcher("w", nil, incl, excl, task.FromCommands("true"))
		if err != nil {
			t.Fatal(err)
		}
		got := map[string]bool{}
		for _, p := range w.paths {
			got[p] = true
		}
		var g, wl []string
		for p := range got {
			g = append(g, filepath.Base(p))
		}
		for p := range want {
			wl = append(wl, filepath.Base(p))
		}
		sort.Strings(g)
		sort.Strings(wl)
		fmt.Printf("REPLAY: observed %v, expected %v\n", g, wl)
		if strings.Join(g, " ") != strings.Join(wl, " ") {
			fmt.Println("REPLAY: reproduced: the watcher does not observe exactly the included, non-excluded paths")
		} else {
			fmt.Println("REPLAY: not-reproduced (real code satisfies the property on this input)")
		}
		return
	}
	names := []string{eventCreate, eventWrite, eventRemove, eventRename, eventChmod}
	ops := []fsnotify.Op{fsnotify.Create, fsnotify.Write, fsnotify.Remove, fsnotify.Rename, fsnotify.Chmod}
	var events []string
	sub := make([]bool, 5)
	any := false
	for i, n := range names {
		sub[i] = bv("subscribed." + n)
		if sub[i] {
			events = append(events, n)
			any = true
		}
	}
	trace := filepath.Join(dir, "trace")
	tk := task.FromCommands(fmt.Sprintf(`echo "ran $EventName $EventPath" >> %s`, trace))
	tk.Name = "wt"
	w, err := NewWatcher("w", events, nil, nil, tk)
	if err != nil {
		t.Fatal(err)
	}
	r, _ := runner.NewTaskRunner()
	r.Stdout, r.Stderr = &strings.Builder{}, &strings.Builder{}
	w.r = r
	var bad []string
	n := int(sc.Args[0])
	for e := 0; e < n; e++ {
		ty := 0
		if f, ok := sc.Inputs[fmt.Sprintf("event.%d.type", e)].(float64); ok {
			ty = int(f)
		}
		os.WriteFile(trace, nil, 0o644)
		w.eventsWg.Add(1)
		w.handle(fsnotify.Event{Name: "some/file", Op: ops[ty]})
		raw, _ := os.ReadFile(trace)
		got := strings.TrimSpace(string(raw))
		want := ""
		if !any || sub[ty] {
			want = "ran " + names[ty] + " some/file"
		}
		fmt.Printf("REPLAY: event %d type=%s subscribed=%v: task output %q, expected %q\n", e, names[ty], want != "", got, want)
		if got != want {
			bad = append(bad, fmt.Sprintf("event %d (%s): task ran %q, expected %q", e, names[ty], got, want))
		}
	}
	if len(bad) > 0 {
		fmt.Println("REPLAY: reproduced:", strings.Join(bad, "; "))
	} else {
		fmt.Println("REPLAY: not-reproduced (real code satisfies the property on this input)")
	}
}
