package config

// Native replay for C09: real buildTask/buildPipeline, real TaskRunner,
// executor and shell; the command prints what it sees.

import (
	"encoding/json"
	"fmt"
	"os"
	"path/filepath"
	"strings"
	"testing"

	"github.com/taskctl/taskctl/pkg/runner"
	"github.com/taskctl/taskctl/pkg/scheduler"
	"github.com/taskctl/taskctl/pkg/variables"
)

type c09Scenario struct {
	Harness string                 `json:"harness"`
	Args    []int64                `json:"args"`
	Inputs  map[string]interface{} `json:"inputs"`
}

func TestVerifReplayC09(t *testing.T) {
	data, err := os.ReadFile(os.Getenv("VERIF_SCENARIO"))
	if err != nil {
		t.Skip("no scenario")
	}
	var sc c09Scenario
	if err := json.Unmarshal(data, &sc); err != nil {
		t.Fatal(err)
	}
	dir := t.TempDir()
	trace := filepath.Join(dir, "trace")
	str := func(k string) string { s, _ := sc.Inputs[k].(string); return s }
	mask, viaStage := int(sc.Args[0]), sc.Args[1] == 1
	shellSafe := func(s string) bool {
		for _, c := range s {
			if c < 0x20 || c > 0x7e || c == '=' {
				return false
			}
		}
		return true
	}
	if sc.Harness == "VerifC09Dir" {
		hasStage, hasTask, hasCtx := mask&1 != 0, mask&2 != 0, mask&4 != 0
		tmpl, _ := sc.Inputs["dirs-are-templates"].(bool)
		// returns the directory as it is written in the definition; *real receives where it is
		mkdir := func(n string, real *string) string {
			p := filepath.Join(dir, n)
			os.MkdirAll(p, 0o755)
			*real = p
			if tmpl {
				return "{{.D}}/" + n
			}
			return p
		}
		cmd := fmt.Sprintf("pwd >> %s", trace)
		def := &taskDefinition{Name: "tk", Command: []string{cmd}, Before: []string{cmd}, After: []string{cmd}}
		if tmpl {
			def.Variables = map[string]string{"D": dir}
		}
		start, _ := os.Getwd()
		want := start
		contexts := map[string]*runner.ExecutionContext{}
		if hasCtx {
			def.Context = "ctx"
			c, _ := buildContext(&contextDefinition{Dir: mkdir("ctx-dir", &want)})
			contexts["ctx"] = c
		}
		if hasTask {
			def.Dir = mkdir("task-dir", &want)
		}
		tk, err := buildTask(def, &loaderContext{Dir: dir})
		if err != nil {
			t.Fatal(err)
		}
		r, _ := runner.NewTaskRunner(runner.WithContexts(contexts))
		r.Stdout, r.Stderr = &strings.Builder{}, &strings.Builder{}
		if viaStage {
			cfg := NewConfig()
			cfg.Tasks["tk"] = tk
			sd := &stageDefinition{Name: "s", Task: "tk"}
			if hasStage {
				sd.Dir = mkdir("stage-dir", &want)
			}
			g, _ := scheduler.NewExecutionGraph()
			g, err = buildPipeline(g, []*stageDefinition{sd}, cfg)
			if err != nil {
				t.Fatal(err)
			}
			scheduler.NewScheduler(r).Schedule(g)
		} else {
			r.Run(tk)
		}
		raw, _ := os.ReadFile(trace)
		got := strings.Fields(string(raw))
		fmt.Printf("REPLAY: want every command in %s; observed %v\n", want, got)
		bad := len(got) != 3
		for _, g := range got {
			if g != want {
				bad = true
			}
		}
		if bad {
			fmt.Println("REPLAY: reproduced: a command ran in the wrong directory")
		} else {
			fmt.Println("REPLAY: not-reproduced (real code satisfies the property on this input)")
		}
		return
	}
	levels := []string{"parent", "context", "envfile", "task", "stage", "variation"}
	val := make([]string, 6)
	has := make([]bool, 6)
	want, wantSet := "", false
	for l := range levels {
		has[l] = mask&(1<<l) != 0
		if has[l] {
			val[l] = str("value." + levels[l])
			if !shellSafe(val[l]) {
				fmt.Println("REPLAY: not-replayable (value is not shell-safe text)")
				return
			}
			want, wantSet = val[l], true
		}
	}
	other := str("value.other")
	os.Unsetenv("FOO")
	os.Setenv("OTHER", other)
	if has[0] {
		os.Setenv("FOO", val[0])
	}
	ctxEnv := map[string]string{}
	if has[1] {
		ctxEnv["FOO"] = val[1]
	}
	ctx := runner.NewExecutionContext(nil, "", variables.FromMap(ctxEnv), nil, nil, nil, nil)
	second, _ := sc.Inputs["a-second-variation-that-does-not-define-the-name"].(bool)
	cmd := fmt.Sprintf(`echo "FOO=${FOO-<unset>}|OTHER=$OTHER|TASK_NAME=$TASK_NAME" >> %s`, trace)
	if second {
		cmd = fmt.Sprintf(`echo "FOO=${FOO-<unset>}|OTHER=$OTHER|TASK_NAME=$TASK_NAME|ONLY_FIRST=${ONLY_FIRST-<unset>}" >> %s`, trace)
	}
	def := &taskDefinition{Name: "tk", Command: []string{cmd}, Context: "ctx"}
	if has[2] {
		def.EnvFile = filepath.Join(dir, "env.file")
		os.WriteFile(def.EnvFile, []byte("FOO="+val[2]+"\n"), 0o644)
	}
	if has[3] {
		def.Env = map[string]string{"FOO": val[3]}
	}
	if has[5] {
		def.Variations = []map[string]string{{"FOO": val[5]}}
	}
	if second {
		first := map[string]string{"ONLY_FIRST": "1"}
		if has[5] {
			first["FOO"] = val[5]
		}
		def.Variations = []map[string]string{first, {"ONLY_SECOND": "2"}}
	}
	tk, err := buildTask(def, &loaderContext{Dir: dir})
	if err != nil {
		t.Fatal(err)
	}
	r, _ := runner.NewTaskRunner(runner.WithContexts(map[string]*runner.ExecutionContext{"ctx": ctx}))
	r.Stdout, r.Stderr = &strings.Builder{}, &strings.Builder{}
	if viaStage {
		cfg := NewConfig()
		cfg.Tasks["tk"] = tk
		sd := &stageDefinition{Name: "s", Task: "tk"}
		if has[4] {
			sd.Env = map[string]string{"FOO": val[4]}
		}
		g, _ := scheduler.NewExecutionGraph()
		g, err = buildPipeline(g, []*stageDefinition{sd}, cfg)
		if err != nil {
			t.Fatal(err)
		}
		scheduler.NewScheduler(r).Schedule(g)
	} else {
		r.Run(tk)
	}
	raw, _ := os.ReadFile(trace)
	got := strings.TrimSpace(string(raw))
	wantFoo := want
	if !wantSet {
		wantFoo = "<unset>"
	}
	exp := fmt.Sprintf("FOO=%s|OTHER=%s|TASK_NAME=tk", wantFoo, other)
	if second {
		// the second variation's command sees the highest level below the variation level
		w2 := "<unset>"
		for l := 0; l < 5; l++ {
			if has[l] {
				w2 = val[l]
			}
		}
		exp = exp + "|ONLY_FIRST=1\n" + fmt.Sprintf("FOO=%s|OTHER=%s|TASK_NAME=tk|ONLY_FIRST=<unset>", w2, other)
	}
	fmt.Printf("REPLAY: levels=%v values=%q expected %q observed %q\n", has, val, exp, got)
	if got != exp {
		fmt.Println("REPLAY: reproduced: the command's environment does not follow the precedence")
	} else {
		fmt.Println("REPLAY: not-reproduced (real code satisfies the property on this input)")
	}
}
