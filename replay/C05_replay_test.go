package scheduler

// Native replay of a C05 counterexample (or witness) against the real
// NewExecutionGraph. Reads the scenario written by the symbolic check.

import (
	"encoding/json"
	"fmt"
	"os"
	"testing"
)

type c05Scenario struct {
	Args   []int64                `json:"args"`
	Inputs map[string]interface{} `json:"inputs"`
	Label  string                 `json:"label"`
}

func TestVerifReplayC05(t *testing.T) {
	data, err := os.ReadFile(os.Getenv("VERIF_SCENARIO"))
	if err != nil {
		t.Skip("no scenario")
	}
	var sc c05Scenario
	if err := json.Unmarshal(data, &sc); err != nil {
		t.Fatal(err)
	}
	names := []string{"a", "b", "c", "d", "e"}[:sc.Args[0]]
	idx := map[string]int{}
	for i, n := range names {
		idx[n] = i
	}
	n := len(names)
	adj := make([][]bool, n)
	for i := range adj {
		adj[i] = make([]bool, n)
	}
	var stages []*Stage
	for k, name := range names {
		cnt := int(sc.Inputs["ndeps."+name].(float64))
		var deps []string
		for l := 0; l < cnt; l++ {
			dep := sc.Inputs[fmt.Sprintf("dep.%s.%d", name, l)].(string)
			deps = append(deps, dep)
			adj[idx[dep]][k] = true
		}
		stages = append(stages, &Stage{Name: name, DependsOn: deps})
	}
	// reference: Kahn's algorithm (independent of the symbolic harness's closure)
	indeg := make([]int, n)
	for i := 0; i < n; i++ {
		for j := 0; j < n; j++ {
			if adj[i][j] {
				indeg[j]++
			}
		}
	}
	removed := 0
	done := make([]bool, n)
	for changed := true; changed; {
		changed = false
		for j := 0; j < n; j++ {
			if !done[j] && indeg[j] == 0 {
				done[j] = true
				removed++
				changed = true
				for k := 0; k < n; k++ {
					if adj[j][k] {
						indeg[k]--
					}
				}
			}
		}
	}
	cyclic := removed != n
	g, gerr := NewExecutionGraph(stages...)
	fmt.Printf("REPLAY: stages=%v cyclic(reference)=%v err=%v\n", describe(stages), cyclic, gerr)
	bad := ""
	switch {
	case gerr != nil && gerr != ErrCycleDetected:
		bad = "error is not the cycle error"
	case gerr != nil && !cyclic:
		bad = "acyclic pipeline rejected with a cycle error"
	case gerr == nil && cyclic:
		bad = "cyclic pipeline accepted"
	case gerr == nil:
		for i := 0; i < n && bad == ""; i++ {
			for j := 0; j < n; j++ {
				if contains(g.To(names[j]), names[i]) != adj[i][j] || contains(g.From(names[i]), names[j]) != adj[i][j] {
					bad = fmt.Sprintf("edge %s->%s: declared=%v To=%v From=%v", names[i], names[j], adj[i][j], g.To(names[j]), g.From(names[i]))
					break
				}
			}
		}
	}
	if bad != "" {
		fmt.Println("REPLAY: reproduced:", bad)
	} else {
		fmt.Println("REPLAY: not-reproduced (real code satisfies the property on this input)")
	}
}

func contains(l []string, s string) bool {
	for _, x := range l {
		if x == s {
			return true
		}
	}
	return false
}

func describe(st []*Stage) string {
	s := ""
	for _, x := range st {
		s += fmt.Sprintf("%s:%v ", x.Name, x.DependsOn)
	}
	return s
}
