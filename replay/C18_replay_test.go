package config

// Native replay for C18: the scenario's definition written as YAML and loaded by the real Loader.

import (
	"encoding/json"
	"fmt"
	"os"
	"path/filepath"
	"strings"
	"testing"
)

func TestVerifReplayC18(t *testing.T) {
	data, err := os.ReadFile(os.Getenv("VERIF_SCENARIO"))
	if err != nil {
		t.Skip("no scenario")
	}
	var sc struct {
		Inputs map[string]interface{} `json:"inputs"`
	}
	json.Unmarshal(data, &sc)
	num := func(k string) int { f, _ := sc.Inputs[k].(float64); return int(f) }
	bv := func(k string) bool { v, _ := sc.Inputs[k].(bool); return v }
	taskOf := []string{"t1", "nosuch", "", "", "", "p1", "p2", "", "t1", "t1"}
	pipeOf := []string{"", "", "p1", "p2", "nosuchp", "", "", "t1", "p1", "p2"}
	defName := []string{"t1", "nosuch", "p1", "p2", "nosuchp", "p1", "p2", "t1", "p1", "p2"}
	names := []string{"", "x", "y"}
	deps := []string{"x", "y", "t1", "p2", "zz"}
	type st struct {
		kind int
		eff  string
		dep  string
	}
	mk := func(id string, sb *strings.Builder) st {
		k, n := num("stage."+id+".kind"), num("stage."+id+".name")
		s := st{kind: k}
		switch {
		case taskOf[k] != "" && pipeOf[k] != "":
			fmt.Fprintf(sb, "    - task: %s\n      pipeline: %s\n", taskOf[k], pipeOf[k])
		case taskOf[k] != "":
			fmt.Fprintf(sb, "    - task: %s\n", taskOf[k])
		default:
			fmt.Fprintf(sb, "    - pipeline: %s\n", pipeOf[k])
		}
		s.eff = defName[k]
		if names[n] != "" {
			fmt.Fprintf(sb, "      name: %s\n", names[n])
			s.eff = names[n]
		}
		if bv("stage." + id + ".has-dep") {
			s.dep = deps[num("stage."+id+".dep")]
			fmt.Fprintf(sb, "      depends_on: [%s]\n", s.dep)
		}
		return s
	}
	var sb strings.Builder
	sb.WriteString("tasks:\n  t1:\n    command: ['true']\npipelines:\n  p1:\n")
	s0 := mk("p1.0", &sb)
	s1 := mk("p1.1", &sb)
	sb.WriteString("  p2:\n")
	s2 := mk("p2.0", &sb)
	wt := []string{"t1", "nosuch"}[num("watcher.task")]
	fmt.Fprintf(&sb, "watchers:\n  w:\n    task: %s\n    watch: ['*.nothing']\n", wt)
	refOK := func(s st) bool { return s.kind == 0 || s.kind == 2 || s.kind == 3 || s.kind == 8 || s.kind == 9 }
	depIn := func(s st, o ...st) bool {
		if s.dep == "" {
			return true
		}
		for _, x := range o {
			if x.eff == s.dep {
				return true
			}
		}
		return false
	}
	cyc := s0.kind == 2 || s1.kind == 2 || s2.kind == 3 || ((s0.kind == 3 || s1.kind == 3) && s2.kind == 2)
	wellFormed := refOK(s0) && refOK(s1) && refOK(s2) && depIn(s0, s0, s1) && depIn(s1, s0, s1) && depIn(s2, s2) && s0.eff != s1.eff && wt == "t1" && !cyc
	dir := t.TempDir()
	file := filepath.Join(dir, "tasks.yaml")
	os.WriteFile(file, []byte(sb.String()), 0o644)
	os.Setenv("HOME", dir)
	cl := NewConfigLoader(NewConfig())
	_, lerr := cl.Load(file)
	fmt.Printf("REPLAY: config:\n%s\nREPLAY: well-formed(reference)=%v load error=%v\n", sb.String(), wellFormed, lerr)
	if !wellFormed && lerr == nil {
		fmt.Println("REPLAY: reproduced: a configuration with a dangling reference / duplicate stage / self-including pipeline was accepted")
	} else {
		fmt.Println("REPLAY: not-reproduced (real loader satisfies the property on this input)")
	}
}
