package runner

// Native replay for C14 (runner level): real contexts, runner, executor and shell.

import (
	"sort"
	"encoding/json"
	"fmt"
	"os"
	"path/filepath"
	"strings"
	"sync"
	"testing"

	"github.com/taskctl/taskctl/pkg/task"
	"github.com/taskctl/taskctl/pkg/variables"
)

type c14Scenario struct {
	Harness string                 `json:"harness"`
	Args    []int64                `json:"args"`
	Inputs  map[string]interface{} `json:"inputs"`
}

func TestVerifReplayC14(t *testing.T) {
	data, err := os.ReadFile(os.Getenv("VERIF_SCENARIO"))
	if err != nil {
		t.Skip("no scenario")
	}
	var sc c14Scenario
	json.Unmarshal(data, &sc)
	dir := t.TempDir()
	trace := filepath.Join(dir, "trace")
	os.WriteFile(trace, nil, 0o644)
	num := func(key string) int {
		if v, ok := sc.Inputs[key]; ok {
			if f, ok := v.(float64); ok {
				return int(f)
			}
		}
		return 0
	}
	if sc.Harness == "VerifC14Up" {
		upFails, _ := sc.Inputs["up-fails"].(bool)
		st := 0
		if upFails {
			st = 1
		}
		up := fmt.Sprintf("echo up-start >> %s; sleep 0.3; echo up-end >> %s; exit %d", trace, trace, st)
		mk := func(tag string) string { return fmt.Sprintf("echo %s >> %s", tag, trace) }
		ctx := NewExecutionContext(nil, "", variables.NewVariables(), []string{up}, nil, []string{mk("cb0")}, nil)
		r, _ := NewTaskRunner(WithContexts(map[string]*ExecutionContext{"ctx": ctx}))
		r.Stdout, r.Stderr = &strings.Builder{}, &strings.Builder{}
		var wg sync.WaitGroup
		errs := make([]error, 2)
		for k := 0; k < 2; k++ {
			k := k
			tk := task.FromCommands(mk("c0"))
			tk.Name = fmt.Sprint("t", k)
			tk.Context = "ctx"
			wg.Add(1)
			go func() { defer wg.Done(); errs[k] = r.Run(tk) }()
		}
		wg.Wait()
		raw, _ := os.ReadFile(trace)
		got := strings.Fields(string(raw))
		fmt.Printf("REPLAY: up-fails=%v trace=%v errs=%v\n", upFails, got, errs)
		var bad []string
		ups := 0
		ended := false
		for _, g := range got {
			switch g {
			case "up-start":
				ups++
			case "up-end":
				ended = true
			default:
				if !ended {
					bad = append(bad, g+" ran before up completed")
				}
				if upFails {
					bad = append(bad, g+" ran although up failed")
				}
			}
		}
		if ups != 1 {
			bad = append(bad, fmt.Sprintf("up ran %d times", ups))
		}
		if upFails && (errs[0] == nil || errs[1] == nil) {
			bad = append(bad, "a task of a context that failed to start reported success")
		}
		if len(bad) > 0 {
			fmt.Println("REPLAY: reproduced:", strings.Join(bad, "; "))
		} else {
			fmt.Println("REPLAY: not-reproduced (real code satisfies the property on this input)")
		}
		return
	}
	nt, shape := int(sc.Args[0]), int(sc.Args[1])
	twoCtx := len(sc.Args) > 2 && sc.Args[2] == 1
	hasCond, hasBefore, hasAfter := shape&1 != 0, shape&2 != 0, shape&4 != 0
	kind := func(k int) int { return num(fmt.Sprintf("outcome.%d", k)) }
	for k := 0; k < 40; k++ {
		st := 0
		if kind(k) == 1 {
			st = num(fmt.Sprintf("status.%d", k))
		}
		os.WriteFile(filepath.Join(dir, fmt.Sprintf("st.%d", k)), []byte(fmt.Sprint(st)), 0o644)
	}
	mk := func(tag string) string {
		return fmt.Sprintf("n=$(wc -l < %s); echo %s >> %s; exit $(cat %s/st.$((n)))", trace, tag, trace, dir)
	}
	ctx := NewExecutionContext(nil, "", variables.NewVariables(), []string{mk("up0"), mk("up1")}, []string{mk("down0")}, []string{mk("cb0")}, []string{mk("ca0")})
	other := NewExecutionContext(nil, "", variables.NewVariables(), []string{mk("up-other")}, []string{mk("down-other")}, nil, nil)
	ctxB := NewExecutionContext(nil, "", variables.NewVariables(), []string{mk("upB")}, []string{mk("downB")}, []string{mk("cbB")}, []string{mk("caB")})
	r, _ := NewTaskRunner(WithContexts(map[string]*ExecutionContext{"ctx": ctx, "unused": other, "ctxB": ctxB}))
	r.Stdout, r.Stderr = &strings.Builder{}, &strings.Builder{}
	// reference walk over the scenario's outcomes
	var exp []string
	i := 0
	next := func(tag string) (bool, bool) {
		k := i
		i++
		exp = append(exp, tag)
		return kind(k) == 1, kind(k) == 1
	}
	upDone, upFail := false, false
	upDoneB, upFailB := false, false
	var wantErr []bool
	for k := 0; k < nt; k++ {
		allow, _ := sc.Inputs[fmt.Sprintf("allow_failure.%d", k)].(bool)
		mustFail := false
		useB := twoCtx && k == 1
		cb, ca := "cb0", "ca0"
		if useB {
			cb, ca = "cbB", "caB"
		}
		func() {
			if useB {
				if !upDoneB {
					upDoneB = true
					if f, _ := next("upB"); f {
						upFailB = true
					}
				}
				if upFailB {
					mustFail = true
					return
				}
			} else if !upDone {
				upDone = true
				if f, _ := next("up0"); f {
					upFail = true
				}
				if f, _ := next("up1"); f {
					upFail = true
				}
			}
			if !useB && upFail {
				mustFail = true
				return
			}
			if f, _ := next(cb); f {
				mustFail = true
				return
			}
			skipped, failed := false, false
			if hasCond {
				if f, _ := next("cond"); f {
					skipped = true
				}
			}
			if !skipped && hasBefore {
				if f, _ := next("b0"); f {
					failed = true
				}
			}
			if !skipped && !failed {
				if f, _ := next("c0"); f && !allow {
					failed = true
				}
				if !failed && hasAfter {
					next("a0")
				}
			}
			next(ca)
			mustFail = failed
		}()
		wantErr = append(wantErr, mustFail)
	}
	expDowns := []string{"down0"}
	if twoCtx && nt == 2 {
		expDowns = append(expDowns, "downB")
	}
	var errs []error
	for k := 0; k < nt; k++ {
		tk := task.FromCommands(mk("c0"))
		tk.Name = fmt.Sprint("t", k)
		tk.Context = "ctx"
		if twoCtx && k == 1 {
			tk.Context = "ctxB"
		}
		if hasCond {
			tk.Condition = mk("cond")
		}
		if hasBefore {
			tk.Before = []string{mk("b0")}
		}
		if hasAfter {
			tk.After = []string{mk("a0")}
		}
		tk.AllowFailure, _ = sc.Inputs[fmt.Sprintf("allow_failure.%d", k)].(bool)
		errs = append(errs, r.Run(tk))
	}
	r.Finish()
	raw, _ := os.ReadFile(trace)
	got := strings.Fields(string(raw))
	fmt.Printf("REPLAY: expected %v\nREPLAY: observed %v errs=%v\n", exp, got, errs)
	// the run part in order; the down commands as a set at the end
	bad := len(got) != len(exp)+len(expDowns) || strings.Join(got[:minInt(len(exp), len(got))], " ") != strings.Join(exp, " ")
	if !bad {
		tail := append([]string(nil), got[len(exp):]...)
		sort.Strings(tail)
		sort.Strings(expDowns)
		bad = strings.Join(tail, " ") != strings.Join(expDowns, " ")
	}
	exp = append(exp, expDowns...)
	for k := range errs {
		if (errs[k] != nil) != wantErr[k] {
			bad = true
		}
	}
	if bad {
		fmt.Println("REPLAY: reproduced: context hooks did not run the right number of times / in the right order")
	} else {
		fmt.Println("REPLAY: not-reproduced (real code satisfies the property on this input)")
	}
}

func minInt(a, b int) int {
	if a < b {
		return a
	}
	return b
}
