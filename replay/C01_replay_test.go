package scheduler

// Native replay for the scheduler properties C01-C04: the counterexample's graph
// and outcome assignment are run through the real Scheduler with a controlled
// runner, under every completion order (priority permutations), and the
// behavioural oracles are checked on the real execution.

import (
	"encoding/json"
	"errors"
	"fmt"
	"os"
	"sort"
	"strings"
	"sync"
	"testing"
	"time"

	"github.com/taskctl/taskctl/pkg/task"
	"github.com/taskctl/taskctl/pkg/variables"
)

type schedScenario struct {
	Args   []int64                `json:"args"`
	Inputs map[string]interface{} `json:"inputs"`
}

type ctlRunner struct {
	mu       sync.Mutex
	started  []string
	finished map[string]bool
	inflight map[string]chan struct{}
	fail     map[string]bool
	runs     map[string]int
	byTask   map[*task.Task]string
	viol     []string
	deps     map[string][]string
	finOK    func(dep string) bool
}

func (r *ctlRunner) Run(t *task.Task) error {
	r.mu.Lock()
	name := r.byTask[t]
	r.runs[name]++
	r.started = append(r.started, name)
	for _, d := range r.deps[name] {
		if !r.finOK(d) {
			r.viol = append(r.viol, fmt.Sprintf("C01: %s started before its dependency %s finished", name, d))
		}
	}
	ch := make(chan struct{})
	r.inflight[name] = ch
	r.mu.Unlock()
	<-ch
	r.mu.Lock()
	r.finished[name] = true
	delete(r.inflight, name)
	r.mu.Unlock()
	if r.fail[name] {
		return errors.New("task failed")
	}
	return nil
}
func (r *ctlRunner) Cancel() {}
func (r *ctlRunner) Finish() {}

func permutations(n int) [][]int {
	var out [][]int
	var rec func(p []int, used []bool)
	rec = func(p []int, used []bool) {
		if len(p) == n {
			out = append(out, append([]int(nil), p...))
			return
		}
		for i := 0; i < n; i++ {
			if !used[i] {
				used[i] = true
				rec(append(p, i), used)
				used[i] = false
			}
		}
	}
	rec(nil, make([]bool, n))
	return out
}

type schedAttrs map[string]bool

// runSched runs the real scheduler on graph (n, edges) with the given stage attributes
// under the given priority orders; returns the first violation found ("" if none).
// slowConditions: stage conditions take ~120 ms (longer than the scheduler's 50 ms pause), so that
// a scheduler that mishandles a condition still being evaluated shows it.
var slowConditions = ""

func condCommand(truth bool) string {
	if slowConditions == "" {
		if truth {
			return "true"
		}
		return "false"
	}
	name := slowConditions + "/cond-false.sh"
	code := 1
	if truth {
		name, code = slowConditions+"/cond-true.sh", 0
	}
	if _, err := os.Stat(name); err != nil {
		os.WriteFile(name, []byte(fmt.Sprintf("#!/bin/sh\nsleep 0.12\nexit %d\n", code)), 0o755)
	}
	return name
}

func runSched(n, edges int, b func(string) bool, prios [][]int) (string, bool) {
	names := []string{"a", "b", "c", "d"}[:n]
	dep := make([][]int, n)
	k := 0
	for i := 0; i < n; i++ {
		for j := 0; j < n; j++ {
			if i == j {
				continue
			}
			if edges&(1<<k) != 0 {
				dep[j] = append(dep[j], i)
			}
			k++
		}
	}
	const (
		mSkipped = iota
		mCanceled
		mDone
		mFailedAllowed
		mFailedHard
	)
	model := make([]int, n)
	done := make([]bool, n)
	for round := 0; round < n; round++ {
		for j := 0; j < n; j++ {
			if done[j] {
				continue
			}
			ready := true
			for _, d := range dep[j] {
				if !done[d] {
					ready = false
				}
			}
			if !ready {
				continue
			}
			nm := names[j]
			m := mDone
			if b("fails." + nm) {
				m = mFailedHard
				if b("allow." + nm) {
					m = mFailedAllowed
				}
			}
			for _, d := range dep[j] {
				if model[d] == mCanceled || model[d] == mFailedHard {
					m = mCanceled
				}
			}
			if b("has-condition."+nm) && !b("condition-true."+nm) {
				m = mSkipped
			}
			model[j] = m
			done[j] = true
		}
	}
	for _, ok := range done {
		if !ok {
			return "", false // cyclic
		}
	}
	for _, prio := range prios {
		var stages []*Stage
		r := &ctlRunner{finished: map[string]bool{}, inflight: map[string]chan struct{}{}, fail: map[string]bool{}, runs: map[string]int{}, byTask: map[*task.Task]string{}, deps: map[string][]string{}}
		for j, nm := range names {
			tk := task.FromCommands("true")
			tk.Name = nm
			s := &Stage{Name: nm, Task: tk, AllowFailure: b("allow." + nm)}
			if b("has-condition." + nm) {
				s.Condition = condCommand(b("condition-true." + nm))
			}
			for _, d := range dep[j] {
				s.DependsOn = append(s.DependsOn, names[d])
				r.deps[nm] = append(r.deps[nm], names[d])
			}
			r.byTask[tk] = nm
			r.fail[nm] = b("fails." + nm)
			stages = append(stages, s)
		}
		byName := map[string]*Stage{}
		for _, s := range stages {
			byName[s.Name] = s
		}
		r.finOK = func(d string) bool {
			s := byName[d]
			st := s.ReadStatus()
			return st == StatusDone || st == StatusSkipped || (st == StatusError && s.AllowFailure) || (r.finished[d] && st != StatusWaiting)
		}
		g, err := NewExecutionGraph(stages...)
		if err != nil {
			return "", false
		}
		sd := NewScheduler(r)
		resCh := make(chan error, 1)
		go func() { resCh <- sd.Schedule(g) }()
		var runErr error
		returned := false
		deadline := time.Now().Add(15 * time.Second)
		stable := 0
		lastStarted := -1
		for !returned && time.Now().Before(deadline) {
			select {
			case runErr = <-resCh:
				returned = true
				continue
			case <-time.After(40 * time.Millisecond):
			}
			r.mu.Lock()
			if len(r.started) == lastStarted {
				stable++
			} else {
				stable = 0
				lastStarted = len(r.started)
			}
			if stable >= 4 && len(r.inflight) > 0 {
				for j, nm := range names {
					if r.runs[nm] > 0 || model[j] == mSkipped || model[j] == mCanceled {
						continue
					}
					elig := true
					for _, d := range dep[j] {
						st := byName[names[d]].ReadStatus()
						if !(st == StatusDone || st == StatusSkipped || (st == StatusError && byName[names[d]].AllowFailure)) {
							elig = false
						}
					}
					if elig {
						r.viol = append(r.viol, fmt.Sprintf("C04: %s is eligible but was not started while %d other task(s) are still running", nm, len(r.inflight)))
					}
				}
				best := ""
				bestP := 1 << 30
				for nm := range r.inflight {
					for j, x := range names {
						if x == nm && prio[j] < bestP {
							best, bestP = nm, prio[j]
						}
					}
				}
				close(r.inflight[best])
				stable = 0
			}
			r.mu.Unlock()
		}
		r.mu.Lock()
		viol := append([]string(nil), r.viol...)
		if !returned {
			viol = append(viol, "C03: Schedule did not return")
			for _, ch := range r.inflight {
				close(ch)
			}
		}
		for j, nm := range names {
			want := StatusDone
			switch model[j] {
			case mSkipped:
				want = StatusSkipped
			case mCanceled:
				want = StatusCanceled
			case mFailedHard:
				want = StatusError
			}
			runs := r.runs[nm]
			wantRuns := 0
			if model[j] >= mDone {
				wantRuns = 1
			}
			if returned && int(byName[nm].ReadStatus()) != want {
				viol = append(viol, fmt.Sprintf("C02: final status of %s is %d, reference %d", nm, byName[nm].ReadStatus(), want))
			}
			if runs != wantRuns {
				viol = append(viol, fmt.Sprintf("C03: %s ran %d time(s), reference %d", nm, runs, wantRuns))
			}
		}
		hard := false
		for _, m := range model {
			if m == mFailedHard {
				hard = true
			}
		}
		if returned && (runErr != nil) != hard {
			viol = append(viol, fmt.Sprintf("C02: run error %v, reference hard failure %v", runErr, hard))
			if hard && runErr == nil {
				viol = append(viol, "C07: a stage failed without allow_failure but the pipeline run reports success (the command line would exit 0 and go on to the next target)")
			}
		}
		r.mu.Unlock()
		if len(viol) > 0 {
			sort.Strings(viol)
			return fmt.Sprintf("graph n=%d deps=%v model=%v order %v: %s", n, dep, model, prio, strings.Join(viol, "; ")), true
		}
	}
	return "", true
}

func TestVerifReplaySched(t *testing.T) {
	data, err := os.ReadFile(os.Getenv("VERIF_SCENARIO"))
	if err != nil {
		t.Skip("no scenario")
	}
	var sc schedScenario
	if err := json.Unmarshal(data, &sc); err != nil {
		t.Fatal(err)
	}
	n, edges := int(sc.Args[0]), int(sc.Args[1])
	b := func(k string) bool { v, _ := sc.Inputs[k].(bool); return v }
	// the scenario itself is run twice: with instantaneous and with slow (120 ms) stage conditions
	if os.Getenv("VERIF_WITNESS") == "" {
		slowConditions = t.TempDir()
		if v, _ := runSched(n, edges, b, permutations(n)[:1]); v != "" {
			fmt.Println("REPLAY: reproduced (stage conditions taking 120 ms):", v)
			return
		}
		slowConditions = ""
	}
	if v, ok := runSched(n, edges, b, permutations(n)); v != "" {
		fmt.Println("REPLAY: reproduced:", v)
		return
	} else if !ok {
		fmt.Println("REPLAY: scenario graph is not acyclic")
	}
	if os.Getenv("VERIF_WITNESS") != "" {
		fmt.Println("REPLAY: not-reproduced (witness of a passing path: real scheduler satisfies C01-C04 on this graph and outcome assignment under every completion order)")
		return
	}
	// The inductive counterexample's own graph may not exhibit the defect from the initial
	// state: confirm natively on the other 3-stage graphs (all stages succeeding, each stage
	// failing hard / with allow_failure, and the scenario's attributes), 16 runs at a time.
	type job struct {
		edges int
		attrs schedAttrs
	}
	var jobs []job
	names := []string{"a", "b", "c"}
	for e := 0; e < 64; e++ {
		jobs = append(jobs, job{e, schedAttrs{}})
		for _, nm := range names {
			jobs = append(jobs, job{e, schedAttrs{"fails." + nm: true}})
			jobs = append(jobs, job{e, schedAttrs{"fails." + nm: true, "allow." + nm: true}})
			jobs = append(jobs, job{e, schedAttrs{"fails." + nm: true, "allow.a": true, "allow.b": true, "allow.c": true}})
		}
		sa := schedAttrs{}
		for k, v := range sc.Inputs {
			if bv, ok := v.(bool); ok {
				sa[k] = bv
			}
		}
		jobs = append(jobs, job{e, sa})
	}
	found := make(chan string, len(jobs))
	sem := make(chan struct{}, 16)
	var wg sync.WaitGroup
	for _, j := range jobs {
		j := j
		wg.Add(1)
		go func() {
			defer wg.Done()
			sem <- struct{}{}
			defer func() { <-sem }()
			if v, _ := runSched(3, j.edges, func(k string) bool { return j.attrs[k] }, [][]int{{0, 1, 2}, {2, 1, 0}}); v != "" {
				found <- v
			}
		}()
	}
	wg.Wait()
	close(found)
	var all []string
	for v := range found {
		all = append(all, v)
	}
	sort.Strings(all)
	if len(all) > 0 {
		fmt.Printf("REPLAY: reproduced (on %d of %d native runs; first): %s\n", len(all), len(jobs), all[0])
		// one line naming every property whose oracle failed somewhere
		seen := map[string]bool{}
		for _, v := range all {
			for _, id := range []string{"C01:", "C02:", "C03:", "C04:", "C07:"} {
				if strings.Contains(v, id) {
					seen[id] = true
				}
			}
		}
		var ids []string
		for id := range seen {
			ids = append(ids, id)
		}
		sort.Strings(ids)
		fmt.Println("REPLAY: reproduced: oracles failing natively:", strings.Join(ids, " "))
	} else {
		fmt.Println("REPLAY: not-reproduced (real scheduler satisfies C01-C04 on the scenario and on all 3-stage graphs tried)")
	}
}

// ---- nested pipelines (VerifSchedNested) ----

type nestRunner struct {
	mu    sync.Mutex
	info  map[*task.Task]*nestInfo
	viol  []string
	delay time.Duration
}
type nestInfo struct {
	label string
	st    *Stage
	deps  []*Stage
	fail  bool
	runs  int
}

func (r *nestRunner) Run(t *task.Task) error {
	r.mu.Lock()
	x := r.info[t]
	x.runs++
	for _, d := range x.deps {
		s := d.ReadStatus()
		if !(s == StatusDone || s == StatusSkipped || (s == StatusError && d.AllowFailure)) {
			r.viol = append(r.viol, fmt.Sprintf("C01: %s started while its dependency %s has status %d", x.label, d.Name, s))
		}
	}
	r.mu.Unlock()
	time.Sleep(r.delay)
	if x.fail {
		return errors.New("task failed")
	}
	return nil
}
func (r *nestRunner) Cancel() {}
func (r *nestRunner) Finish() {}

func TestVerifReplaySchedNested(t *testing.T) {
	data, err := os.ReadFile(os.Getenv("VERIF_SCENARIO"))
	if err != nil {
		t.Skip("no scenario")
	}
	var sc schedScenario
	json.Unmarshal(data, &sc)
	innerEdges, pdeps, ab := int(sc.Args[0]), int(sc.Args[1]), int(sc.Args[2])
	b := func(k string) bool { v, _ := sc.Inputs[k].(bool); return v }
	r := &nestRunner{info: map[*task.Task]*nestInfo{}, delay: 130 * time.Millisecond}
	build := func(names []string, edges int, prefix string) ([]*Stage, *ExecutionGraph) {
		var stages []*Stage
		for _, nm := range names {
			tk := task.FromCommands("true")
			s := &Stage{Name: nm, Task: tk}
			stages = append(stages, s)
			r.info[tk] = &nestInfo{label: prefix + "." + nm, st: s, fail: b(prefix + ".fails." + nm)}
		}
		k := 0
		for i := range names {
			for j := range names {
				if i == j {
					continue
				}
				if edges&(1<<k) != 0 {
					stages[j].DependsOn = append(stages[j].DependsOn, names[i])
					r.info[stages[j].Task].deps = append(r.info[stages[j].Task].deps, stages[i])
				}
				k++
			}
		}
		g, err := NewExecutionGraph(stages...)
		if err != nil {
			return nil, nil
		}
		return stages, g
	}
	_, ig := build([]string{"a", "b", "c"}, innerEdges, "inner")
	oe := 0
	if ab == 1 {
		oe = 1
	}
	outer, _ := build([]string{"a", "b"}, oe, "outer")
	if ig == nil || outer == nil {
		fmt.Println("REPLAY: not-replayable (cyclic graph)")
		return
	}
	p := &Stage{Name: "c", Pipeline: ig}
	if pdeps&1 != 0 {
		p.DependsOn = append(p.DependsOn, "a")
	}
	if pdeps&2 != 0 {
		p.DependsOn = append(p.DependsOn, "b")
	}
	og, err := NewExecutionGraph(outer[0], outer[1], p)
	if err != nil {
		t.Fatal(err)
	}
	done := make(chan error, 1)
	go func() { done <- NewScheduler(r).Schedule(og) }()
	select {
	case <-done:
	case <-time.After(20 * time.Second):
		r.viol = append(r.viol, "C03: nested run did not return")
	}
	r.mu.Lock()
	defer r.mu.Unlock()
	for _, x := range r.info {
		if x.runs > 1 {
			r.viol = append(r.viol, fmt.Sprintf("C03: %s ran %d times", x.label, x.runs))
		}
	}
	if len(r.viol) > 0 {
		sort.Strings(r.viol)
		fmt.Println("REPLAY: reproduced:", strings.Join(r.viol, "; "))
	} else {
		fmt.Println("REPLAY: not-reproduced (real scheduler behaved on this nested pipeline)")
	}
}

// ---- worker obligations (VerifSchedWorker): stage a as in the scenario; when the scenario says that
// another stage has already recorded the run's error, an independent stage b fails hard and
// finishes FIRST ----

func TestVerifReplaySchedWorker(t *testing.T) {
	data, err := os.ReadFile(os.Getenv("VERIF_SCENARIO"))
	if err != nil {
		t.Skip("no scenario")
	}
	var sc schedScenario
	json.Unmarshal(data, &sc)
	attrs := schedAttrs{}
	for k, v := range sc.Inputs {
		if bv, ok := v.(bool); ok {
			attrs[k] = bv
		}
	}
	n := 1
	prios := [][]int{{0}}
	if attrs["error-already-recorded-by-another-stage"] {
		n = 2
		attrs["fails.b"] = true
		attrs["allow.b"] = false
		prios = [][]int{{1, 0}} // b (the failing other stage) is released first, then a
	}
	v, _ := runSched(n, 0, func(k string) bool { return attrs[k] }, prios)
	if v != "" {
		fmt.Println("REPLAY: reproduced:", v)
	} else {
		fmt.Println("REPLAY: not-reproduced (real scheduler behaved on this scenario)")
	}
}

// ---- VerifSchedBarrier: tasks that need the concurrency ----

type barrierRunner struct {
	mu      sync.Mutex
	started map[string]bool
	need    map[string][]string
	gaveUp  []string
}

func (b *barrierRunner) Run(t *task.Task) error {
	b.mu.Lock()
	b.started[t.Name] = true
	b.mu.Unlock()
	deadline := time.Now().Add(3 * time.Second)
	for {
		all := true
		b.mu.Lock()
		for _, p := range b.need[t.Name] {
			if !b.started[p] {
				all = false
			}
		}
		b.mu.Unlock()
		if all {
			return nil
		}
		if time.Now().After(deadline) {
			b.mu.Lock()
			b.gaveUp = append(b.gaveUp, t.Name)
			b.mu.Unlock()
			return nil
		}
		time.Sleep(5 * time.Millisecond)
	}
}
func (b *barrierRunner) Cancel() {}
func (b *barrierRunner) Finish() {}

func TestVerifReplaySchedBarrier(t *testing.T) {
	data, err := os.ReadFile(os.Getenv("VERIF_SCENARIO"))
	if err != nil {
		t.Skip("no scenario")
	}
	var sc struct {
		Args []int64 `json:"args"`
	}
	json.Unmarshal(data, &sc)
	shape := int(sc.Args[0])
	names := [][]string{{"a", "b"}, {"a", "b", "c"}, {"a", "b", "c"}, {"a", "b", "c"}}[shape]
	deps := []map[string][]string{{}, {}, {"b": {"a"}, "c": {"a"}}, {"c": {"a"}}}[shape]
	need := []map[string][]string{
		{"a": {"b"}, "b": {"a"}},
		{"a": {"b", "c"}, "b": {"a", "c"}, "c": {"a", "b"}},
		{"b": {"c"}, "c": {"b"}},
		{"b": {"c"}},
	}[shape]
	var stages []*Stage
	for _, n := range names {
		tk := task.FromCommands("true")
		tk.Name = n
		stages = append(stages, &Stage{Name: n, Task: tk, DependsOn: deps[n],
			Env: variables.FromMap(map[string]string{"E": n}), Variables: variables.FromMap(map[string]string{"V": n})})
	}
	g, err := NewExecutionGraph(stages...)
	if err != nil {
		t.Fatal(err)
	}
	br := &barrierRunner{started: map[string]bool{}, need: need}
	done := make(chan error, 1)
	go func() { done <- NewScheduler(br).Schedule(g) }()
	var bad []string
	select {
	case <-done:
	case <-time.After(20 * time.Second):
		bad = append(bad, "C03: Schedule did not return")
	}
	br.mu.Lock()
	for _, n := range br.gaveUp {
		bad = append(bad, fmt.Sprintf("C04: the task of stage %s waited 3 s for the task(s) of %v, eligible together with it, to start: they were held back until another one finished", n, need[n]))
	}
	br.mu.Unlock()
	fmt.Printf("REPLAY: shape %d, started %v\n", shape, br.started)
	if len(bad) > 0 {
		fmt.Println("REPLAY: reproduced: " + strings.Join(bad, "; "))
	} else {
		fmt.Println("REPLAY: not-reproduced (the stages that were eligible together ran concurrently)")
	}
}
