package scheduler

// Native replay for the scheduler properties C01-C04: the counterexample's graph
// and outcome assignment are run through the real Scheduler with a controlled
// runner, under every completion order (priority permutations), and the
// behavioural oracles are checked on the real execution.

import (
	"encoding/json"
	"errors"
	"fmt"
	"os"
	"sort"
	"strings"
	"sync"
	"testing"
	"time"

	"github.com/taskctl/taskctl/pkg/task"
)

type schedScenario struct {
	Args   []int64                `json:"args"`
	Inputs map[string]interface{} `json:"inputs"`
}

type ctlRunner struct {
	mu       sync.Mutex
	started  []string
	finished map[string]bool
	inflight map[string]chan struct{}
	fail     map[string]bool
	runs     map[string]int
	byTask   map[*task.Task]string
	viol     []string
	deps     map[string][]string
	finOK    func(dep string) bool
}

func (r *ctlRunner) Run(t *task.Task) error {
	r.mu.Lock()
	name := r.byTask[t]
	r.runs[name]++
	r.started = append(r.started, name)
	for _, d := range r.deps[name] {
		if !r.finOK(d) {
			r.viol = append(r.viol, fmt.Sprintf("C01: %s started before its dependency %s finished", name, d))
		}
	}
	ch := make(chan struct{})
	r.inflight[name] = ch
	r.mu.Unlock()
	<-ch
	r.mu.Lock()
	r.finished[name] = true
	delete(r.inflight, name)
	r.mu.Unlock()
	if r.fail[name] {
		return errors.New("task failed")
	}
	return nil
}
func (r *ctlRunner) Cancel() {}
func (r *ctlRunner) Finish() {}

func permutations(n int) [][]int {
	var out [][]int
	var rec func(p []int, used []bool)
	rec = func(p []int, used []bool) {
		if len(p) == n {
			out = append(out, append([]int(nil), p...))
			return
		}
		for i := 0; i < n; i++ {
			if !used[i] {
				used[i] = true
				rec(append(p, i), used)
				used[i] = false
			}
		}
	}
	rec(nil, make([]bool, n))
	return out
}

func TestVerifReplaySched(t *testing.T) {
	data, err := os.ReadFile(os.Getenv("VERIF_SCENARIO"))
	if err != nil {
		t.Skip("no scenario")
	}
	var sc schedScenario
	if err := json.Unmarshal(data, &sc); err != nil {
		t.Fatal(err)
	}
	n, edges := int(sc.Args[0]), int(sc.Args[1])
	names := []string{"a", "b", "c", "d"}[:n]
	b := func(k string) bool { v, _ := sc.Inputs[k].(bool); return v }
	dep := make([][]int, n)
	k := 0
	for i := 0; i < n; i++ {
		for j := 0; j < n; j++ {
			if i == j {
				continue
			}
			if edges&(1<<k) != 0 {
				dep[j] = append(dep[j], i)
			}
			k++
		}
	}
	// reference model
	const (
		mSkipped = iota
		mCanceled
		mDone
		mFailedAllowed
		mFailedHard
	)
	model := make([]int, n)
	done := make([]bool, n)
	for round := 0; round < n; round++ {
		for j := 0; j < n; j++ {
			if done[j] {
				continue
			}
			ready := true
			for _, d := range dep[j] {
				if !done[d] {
					ready = false
				}
			}
			if !ready {
				continue
			}
			nm := names[j]
			m := mDone
			if b("fails." + nm) {
				m = mFailedHard
				if b("allow." + nm) {
					m = mFailedAllowed
				}
			}
			for _, d := range dep[j] {
				if model[d] == mCanceled || model[d] == mFailedHard {
					m = mCanceled
				}
			}
			if b("has-condition."+nm) && !b("condition-true."+nm) {
				m = mSkipped
			}
			model[j] = m
			done[j] = true
		}
	}
	var allViol []string
	for _, prio := range permutations(n) {
		var stages []*Stage
		r := &ctlRunner{finished: map[string]bool{}, inflight: map[string]chan struct{}{}, fail: map[string]bool{}, runs: map[string]int{}, byTask: map[*task.Task]string{}, deps: map[string][]string{}}
		for j, nm := range names {
			tk := task.FromCommands("true")
			tk.Name = nm
			s := &Stage{Name: nm, Task: tk, AllowFailure: b("allow." + nm)}
			if b("has-condition." + nm) {
				if b("condition-true." + nm) {
					s.Condition = "true"
				} else {
					s.Condition = "false"
				}
			}
			for _, d := range dep[j] {
				s.DependsOn = append(s.DependsOn, names[d])
				r.deps[nm] = append(r.deps[nm], names[d])
			}
			r.byTask[tk] = nm
			r.fail[nm] = b("fails." + nm)
			stages = append(stages, s)
		}
		byName := map[string]*Stage{}
		for _, s := range stages {
			byName[s.Name] = s
		}
		r.finOK = func(d string) bool {
			s := byName[d]
			st := s.ReadStatus()
			return st == StatusDone || st == StatusSkipped || (st == StatusError && s.AllowFailure) || (r.finished[d] && st != StatusWaiting)
		}
		g, err := NewExecutionGraph(stages...)
		if err != nil {
			fmt.Println("REPLAY: not-replayable (graph rejected):", err)
			return
		}
		sd := NewScheduler(r)
		resCh := make(chan error, 1)
		go func() { resCh <- sd.Schedule(g) }()
		var runErr error
		returned := false
		deadline := time.Now().Add(20 * time.Second)
		stable := 0
		lastStarted := -1
		for !returned && time.Now().Before(deadline) {
			select {
			case runErr = <-resCh:
				returned = true
				continue
			case <-time.After(40 * time.Millisecond):
			}
			r.mu.Lock()
			if len(r.started) == lastStarted {
				stable++
			} else {
				stable = 0
				lastStarted = len(r.started)
			}
			if stable >= 4 && len(r.inflight) > 0 {
				// C04: everything eligible now must be in flight
				for j, nm := range names {
					if r.runs[nm] > 0 || model[j] == mSkipped || model[j] == mCanceled {
						continue
					}
					elig := true
					for _, d := range dep[j] {
						st := byName[names[d]].ReadStatus()
						if !(st == StatusDone || st == StatusSkipped || (st == StatusError && byName[names[d]].AllowFailure)) {
							elig = false
						}
					}
					if elig {
						r.viol = append(r.viol, fmt.Sprintf("C04: %s is eligible but was not started while %d other task(s) are still running", nm, len(r.inflight)))
					}
				}
				// release the in-flight task with the highest priority
				best := ""
				bestP := 1 << 30
				for nm := range r.inflight {
					for j, x := range names {
						if x == nm && prio[j] < bestP {
							best, bestP = nm, prio[j]
						}
					}
				}
				close(r.inflight[best])
				stable = 0
			}
			r.mu.Unlock()
		}
		r.mu.Lock()
		viol := append([]string(nil), r.viol...)
		if !returned {
			viol = append(viol, "C03: Schedule did not return")
			for _, ch := range r.inflight {
				close(ch)
			}
		}
		for j, nm := range names {
			want := StatusDone
			switch model[j] {
			case mSkipped:
				want = StatusSkipped
			case mCanceled:
				want = StatusCanceled
			case mFailedHard:
				want = StatusError
			}
			runs := r.runs[nm]
			wantRuns := 0
			if model[j] >= mDone {
				wantRuns = 1
			}
			if returned && int(byName[nm].ReadStatus()) != want {
				viol = append(viol, fmt.Sprintf("C02: final status of %s is %d, reference %d", nm, byName[nm].ReadStatus(), want))
			}
			if runs != wantRuns {
				viol = append(viol, fmt.Sprintf("C03: %s ran %d time(s), reference %d", nm, runs, wantRuns))
			}
		}
		hard := false
		for _, m := range model {
			if m == mFailedHard {
				hard = true
			}
		}
		if returned && (runErr != nil) != hard {
			viol = append(viol, fmt.Sprintf("C02: run error %v, reference hard failure %v", runErr, hard))
		}
		r.mu.Unlock()
		if len(viol) > 0 {
			sort.Strings(viol)
			allViol = append(allViol, fmt.Sprintf("order %v: %s", prio, strings.Join(viol, "; ")))
			break
		}
	}
	fmt.Printf("REPLAY: graph n=%d edges=%b deps=%v model=%v\n", n, edges, dep, model)
	if len(allViol) > 0 {
		fmt.Println("REPLAY: reproduced:", allViol[0])
	} else {
		fmt.Println("REPLAY: not-reproduced (real scheduler satisfies C01-C04 on this graph and outcome assignment under every completion order tried)")
	}
}
