package config

// Native replay for C15: the scenario's shape written as a real YAML / env file and loaded by the
// real Loader. A panic of the test process is the violation.

import (
	"encoding/json"
	"fmt"
	"os"
	"path/filepath"
	"testing"
)

func TestVerifReplayC15(t *testing.T) {
	data, err := os.ReadFile(os.Getenv("VERIF_SCENARIO"))
	if err != nil {
		t.Skip("no scenario")
	}
	var sc struct {
		Harness string  `json:"harness"`
		Args    []int64 `json:"args"`
	}
	json.Unmarshal(data, &sc)
	dir := t.TempDir()
	os.Setenv("HOME", dir)
	os.WriteFile(filepath.Join(dir, "other.yaml"), []byte("tasks:\n  o:\n    command: ['true']\n"), 0o644)
	doc := ""
	shape := int(sc.Args[0])
	switch sc.Harness {
	case "VerifC15Import":
		imp := []string{"import:\n", "import: other.yaml\n", "import: 5\n", "import: true\n", "import: [other.yaml]\n", "import: [5]\n", "import: [null]\n", "import: {a: b}\n", "import: {a: b}\n", "import: [other.yaml, [x]]\n"}[shape]
		doc = imp + "tasks:\n  t1:\n    command: ['true']\n"
	case "VerifC15Build":
		base := "tasks:\n  t1:\n    command: ['true']\n"
		extraTask, ctx, p1extra, watchers, extra := "", "contexts:\n  c1:\n    dir: /tmp\n", "", "watchers:\n  w:\n    task: t1\n    watch: ['*.nothing']\n", ""
		switch shape {
		case 1:
			extraTask = "  t2:\n"
		case 2:
			ctx += "  c2:\n"
		case 3:
			p1extra = "    -\n"
		case 4:
			watchers += "  w2:\n"
		case 5:
			extraTask = "  t2:\n    command: ['true']\n    env_file: missing.env\n"
		case 6:
			p1extra = "    - pipeline: p2\n      dir: /somewhere\n"
		case 7:
			p1extra = "    - name: neither\n"
		case 8:
			p1extra = "    - task: t1\n      pipeline: p2\n      name: both\n"
		case 9:
			extraTask = "  t2: {}\n"
			extra = "  p3:\n"
		case 10:
			base = "tasks:\n"
		}
		doc = base + extraTask + ctx + "pipelines:\n  p1:\n    - task: t1\n" + p1extra + "  p2:\n    - task: t1\n      name: s\n" + extra + watchers
	case "VerifC15Grammar":
		var in struct {
			Inputs map[string]interface{} `json:"inputs"`
		}
		json.Unmarshal(data, &in)
		num := func(k string) int { f, _ := in.Inputs[k].(float64); return int(f) }
		t2 := []string{"  t2:\n", "  t2: {}\n", "  t2:\n    command: ['true']\n    context: c1\n    variations: [null]\n",
			"  t2:\n    command: []\n    context: nosuch\n    before: ['']\n    env: {}\n",
			"  t2:\n    name: renamed\n    command: [a, b]\n    variations: [{}, {K: v}]\n    condition: c\n    exportas: E\n    dir: /d\n",
			"  t2:\n    command: ['true']\n"}[shape]
		c2 := []string{"  c2:\n", "  c2: {}\n", ""}[num("context.c2.shape")]
		p2 := []string{"  p2:\n", "  p2: []\n", "  p2:\n    - task: t1\n"}[num("pipeline.p2.shape")]
		stage := func(k int) string {
			return []string{"    -\n", "    - {}\n", "    - task: t1\n",
				"    - task: t1\n      name: n\n      depends_on: [t1]\n      dir: /x\n      env: {A: b}\n",
				"    - pipeline: p2\n      dir: /x\n      condition: c\n      allow_failure: true\n",
				"    - task: t1\n      pipeline: p2\n      depends_on: []\n",
				"    - name: only-a-name\n      depends_on: [t1]\n",
				"    - pipeline: p1\n      name: self\n"}[k]
		}
		w := []string{"  w:\n", "  w:\n    task: nosuch\n", "  w:\n    task: t2\n    exclude: ['']\n", "  w:\n    task: t1\n    watch: ['*.nothing']\n"}[num("watcher.shape")]
		doc = "tasks:\n  t1:\n    command: ['true']\n" + t2 + "contexts:\n  c1:\n    dir: /tmp\n" + c2 + "pipelines:\n" + p2 + "  p1:\n" +
			stage(num("stage.p1.0.shape")) + stage(num("stage.p1.1.shape")) + "watchers:\n" + w
	case "VerifC15EnvFile":
		lines := []string{"A=1", "A", "A=1=2", "=", "", "=x", "# comment", " ", "\t", "  # c", " A=1", "\t "}
		os.WriteFile(filepath.Join(dir, "vars.env"), []byte(lines[sc.Args[0]]+"\n"+lines[sc.Args[1]]+"\n"), 0o644)
		doc = "tasks:\n  t1:\n    command: ['true']\n    env_file: vars.env\n"
	}
	file := filepath.Join(dir, "tasks.yaml")
	os.WriteFile(file, []byte(doc), 0o644)
	wd, _ := os.Getwd()
	os.Chdir(dir)
	defer os.Chdir(wd)
	fmt.Printf("REPLAY: loading\n%s\n", doc)
	fmt.Println("REPLAY-CRASH-MEANS-REPRODUCED (a panic of the process below is the violation)")
	cl := NewConfigLoader(NewConfig())
	cfg, lerr := cl.Load(file)
	fmt.Printf("REPLAY: loaded without crashing: cfg!=nil=%v err=%v\n", cfg != nil, lerr)
	fmt.Println("REPLAY: not-reproduced (the loader ended with a configuration or an error)")
}
