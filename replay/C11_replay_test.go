package runner

// Native replay for C11: real runner, executor, shell; commands print the scenario's bytes.

import (
	"encoding/json"
	"fmt"
	"os"
	"path/filepath"
	"strings"
	"testing"

	"github.com/taskctl/taskctl/pkg/task"
)

func TestVerifReplayC11(t *testing.T) {
	data, err := os.ReadFile(os.Getenv("VERIF_SCENARIO"))
	if err != nil {
		t.Skip("no scenario")
	}
	var sc struct {
		Args   []int64                `json:"args"`
		Inputs map[string]interface{} `json:"inputs"`
	}
	json.Unmarshal(data, &sc)
	num := func(k string) int {
		if f, ok := sc.Inputs[k].(float64); ok {
			return int(f)
		}
		return 0
	}
	nv, nameLen, exportAs := int(sc.Args[0]), int(sc.Args[1]), sc.Args[2] == 1
	dir := t.TempDir()
	name := make([]byte, nameLen)
	for i := range name {
		name[i] = byte(num(fmt.Sprintf("name.%d", i)))
	}
	calls := 2
	if nv > 0 {
		calls = 2 * nv
	}
	// per call: output bytes and status; commands are dispatched by a call counter
	var outs []string
	for k := 0; k < calls; k++ {
		n := num(fmt.Sprintf("outlen.%d", k))
		b := make([]byte, n)
		esc := ""
		for i := range b {
			b[i] = byte(num(fmt.Sprintf("out.%d.%d", k, i)))
			if b[i] == 0 {
				fmt.Println("REPLAY: not-replayable (NUL byte in output cannot pass through a shell variable)")
				return
			}
			esc += fmt.Sprintf("\\%03o", b[i])
		}
		outs = append(outs, string(b))
		st := 0
		if v, _ := sc.Inputs[fmt.Sprintf("fails.%d", k)].(bool); v {
			st = 2
		}
		os.WriteFile(filepath.Join(dir, fmt.Sprintf("call.%d", k)), []byte(fmt.Sprintf("printf '%s'; exit %d\n", esc, st)), 0o644)
	}
	cnt := filepath.Join(dir, "count")
	os.WriteFile(cnt, nil, 0o644)
	seenOut := filepath.Join(dir, "seen-output")
	cmd := fmt.Sprintf("n=$(wc -l < %s); echo x >> %s; printf '%%s|' '{{.Output}}' >> %s; . %s/call.$((n))", cnt, cnt, seenOut, dir)
	p := task.FromCommands(cmd, cmd)
	p.Name = string(name)
	for v := 0; v < nv; v++ {
		p.Variations = append(p.Variations, map[string]string{"V": fmt.Sprint(v)})
	}
	p.AllowFailure, _ = sc.Inputs["allow_failure"].(bool)
	key := ""
	for _, c := range []byte(strings.ToUpper(string(name))) {
		if (c >= 'A' && c <= 'Z') || (c >= '0' && c <= '9') || c == '_' {
			key += string(c)
		} else {
			key += "_"
		}
	}
	key += "_OUTPUT"
	if exportAs {
		p.ExportAs = "EXPORTED"
		key = "EXPORTED"
	}
	r, _ := NewTaskRunner()
	sink := &strings.Builder{}
	r.Stdout, r.Stderr = sink, &strings.Builder{}
	perr := r.Run(p)
	// reference
	all := ""
	failedHard := false
	executed := 0
	for k := 0; k < calls; k++ {
		executed++
		all += outs[k]
		if v, _ := sc.Inputs[fmt.Sprintf("fails.%d", k)].(bool); v && !p.AllowFailure {
			failedHard = true
			break
		}
	}
	got := filepath.Join(dir, "consumer-saw")
	cons := task.FromCommands(fmt.Sprintf("if [ \"${%s+set}\" = set ]; then printf 'SET:%%s' \"$%s\" > %s; else printf UNSET > %s; fi", key, key, got, got))
	cons.Name = "consumer"
	r.Run(cons)
	raw, _ := os.ReadFile(got)
	var bad []string
	if p.Output() != all {
		bad = append(bad, fmt.Sprintf("captured output %q, commands printed %q", p.Output(), all))
	}
	if (perr != nil) != failedHard {
		bad = append(bad, "producer error does not match")
	}
	want := "SET:" + all
	if failedHard {
		want = "UNSET"
	}
	if string(raw) != want && !(strings.HasSuffix(all, "\n") && !failedHard) {
		bad = append(bad, fmt.Sprintf("consumer saw %q under %s, want %q", raw, key, want))
	}
	// .Output as every executed command saw it: the previous command's output (empty for the first)
	if seenRaw, err := os.ReadFile(seenOut); err == nil {
		quoteSafe := true
		for _, o := range outs {
			if strings.ContainsAny(o, "'|") {
				quoteSafe = false
			}
		}
		if quoteSafe {
			seen := strings.Split(strings.TrimSuffix(string(seenRaw), "|"), "|")
			for k := 0; k < executed && k < len(seen); k++ {
				wantSeen := ""
				if k > 0 {
					wantSeen = outs[k-1]
				}
				if seen[k] != wantSeen {
					bad = append(bad, fmt.Sprintf("command %d saw .Output %q, the previous command printed %q", k, seen[k], wantSeen))
				}
			}
		}
	}
	fmt.Printf("REPLAY: name=%q key=%s outputs=%q captured=%q consumer=%q err=%v\n", name, key, outs[:executed], p.Output(), raw, perr)
	if len(bad) > 0 {
		fmt.Println("REPLAY: reproduced:", strings.Join(bad, "; "))
	} else {
		fmt.Println("REPLAY: not-reproduced (real code satisfies the property on this input)")
	}
}

// Replay of VerifC11Exec scenarios: every command prints the scenario's bytes on stdout and, where
// the scenario says so, one byte on stderr; a later task on the same runner reads the exported name.
func TestVerifReplayC11Exec(t *testing.T) {
	data, err := os.ReadFile(os.Getenv("VERIF_SCENARIO"))
	if err != nil {
		t.Skip("no scenario")
	}
	var sc struct {
		Harness string                 `json:"harness"`
		Args    []int64                `json:"args"`
		Inputs  map[string]interface{} `json:"inputs"`
	}
	json.Unmarshal(data, &sc)
	num := func(k string) int {
		if f, ok := sc.Inputs[k].(float64); ok {
			return int(f)
		}
		return 0
	}
	nc := int(sc.Args[0])
	dir := t.TempDir()
	seenOut := filepath.Join(dir, "seen")
	var cmds, outs []string
	var toErr []bool
	for k := 0; k < nc; k++ {
		esc := ""
		b := make([]byte, num(fmt.Sprintf("outlen.%d", k)))
		for i := range b {
			b[i] = byte(num(fmt.Sprintf("out.%d.%d", k, i)))
		}
		if sc.Harness == "VerifC11Ansi" {
			b = []byte([]string{"p", "\x1b[32mq\x1b[0m", "r\n\x1b[1ms", "\x1b[31m"}[num(fmt.Sprintf("ansi-text.%d", k))%4])
		}
		for i := range b {
			esc += fmt.Sprintf("\\%03o", b[i])
		}
		outs = append(outs, string(b))
		c := fmt.Sprintf("printf '%%s' '{{.Output}}' > %s.%d; printf '%s'", seenOut, k, esc)
		e, _ := sc.Inputs[fmt.Sprintf("prints-to-stderr.%d", k)].(bool)
		if e {
			c += fmt.Sprintf("; printf '\\%03o' >&2", num(fmt.Sprintf("err.%d", k)))
		}
		toErr = append(toErr, e)
		cmds = append(cmds, c)
	}
	for _, o := range outs {
		if strings.ContainsAny(o, "'\x00") {
			fmt.Println("REPLAY: not-replayable (a quote or NUL byte in the output cannot be written into the next command's text)")
			return
		}
	}
	p := task.FromCommands(cmds...)
	p.Name = "prod"
	key := "PROD_OUTPUT"
	if v, _ := sc.Inputs["exportAs-given"].(bool); v {
		p.ExportAs = "CHOSEN"
		key = "CHOSEN"
	}
	r, _ := NewTaskRunner()
	r.Stdout, r.Stderr = &strings.Builder{}, &strings.Builder{}
	if sc.Harness == "VerifC11Ansi" {
		r.OutputFormat = "prefixed"
	}
	perr := r.Run(p)
	all := strings.Join(outs, "")
	got := filepath.Join(dir, "consumer-saw")
	cons := task.FromCommands(fmt.Sprintf("printf '%%s|%%s' \"$%s\" \"$PROD_OUTPUT\" > %s", key, got))
	cons.Name = "cons"
	cerr := r.Run(cons)
	raw, _ := os.ReadFile(got)
	var bad []string
	if perr != nil || cerr != nil {
		bad = append(bad, fmt.Sprintf("producer/consumer failed: %v / %v", perr, cerr))
	}
	if p.Output() != all {
		bad = append(bad, fmt.Sprintf("captured output %q, commands printed %q on stdout", p.Output(), all))
	}
	for k := 0; k < nc; k++ {
		seen, _ := os.ReadFile(fmt.Sprintf("%s.%d", seenOut, k))
		switch {
		case k == 0 && string(seen) != "":
			bad = append(bad, fmt.Sprintf("first command saw .Output %q", seen))
		case k > 0 && !toErr[k-1] && string(seen) != outs[k-1]:
			bad = append(bad, fmt.Sprintf("command %d saw .Output %q, previous printed %q", k, seen, outs[k-1]))
		case k > 0 && toErr[k-1] && !strings.HasPrefix(string(seen), outs[k-1]):
			bad = append(bad, fmt.Sprintf("command %d saw .Output %q, previous printed %q on stdout", k, seen, outs[k-1]))
		}
	}
	wantDefault := all
	if key != "PROD_OUTPUT" {
		wantDefault = ""
	}
	// the shell's "$VAR" is the variable exactly; a trailing newline survives (no command substitution)
	if want := all + "|" + wantDefault; string(raw) != want {
		bad = append(bad, fmt.Sprintf("consumer saw %q under %s|PROD_OUTPUT, want %q", raw, key, want))
	}
	fmt.Printf("REPLAY: outputs=%q stderr=%v captured=%q consumer=%q\n", outs, toErr, p.Output(), raw)
	if len(bad) > 0 {
		fmt.Println("REPLAY: reproduced:", strings.Join(bad, "; "))
	} else {
		fmt.Println("REPLAY: not-reproduced (real code satisfies the property on this input)")
	}
}
