package runner

// Native replay for C11: real runner, executor, shell; commands print the scenario's bytes.

import (
	"encoding/json"
	"fmt"
	"os"
	"path/filepath"
	"strings"
	"testing"

	"github.com/taskctl/taskctl/pkg/task"
)

func TestVerifReplayC11(t *testing.T) {
	data, err := os.ReadFile(os.Getenv("VERIF_SCENARIO"))
	if err != nil {
		t.Skip("no scenario")
	}
	var sc struct {
		Args   []int64                `json:"args"`
		Inputs map[string]interface{} `json:"inputs"`
	}
	json.Unmarshal(data, &sc)
	num := func(k string) int {
		if f, ok := sc.Inputs[k].(float64); ok {
			return int(f)
		}
		return 0
	}
	nv, nameLen, exportAs := int(sc.Args[0]), int(sc.Args[1]), sc.Args[2] == 1
	dir := t.TempDir()
	name := make([]byte, nameLen)
	for i := range name {
		name[i] = byte(num(fmt.Sprintf("name.%d", i)))
	}
	calls := 2
	if nv > 0 {
		calls = 2 * nv
	}
	// per call: output bytes and status; commands are dispatched by a call counter
	var outs []string
	for k := 0; k < calls; k++ {
		n := num(fmt.Sprintf("outlen.%d", k))
		b := make([]byte, n)
		esc := ""
		for i := range b {
			b[i] = byte(num(fmt.Sprintf("out.%d.%d", k, i)))
			if b[i] == 0 {
				fmt.Println("REPLAY: not-replayable (NUL byte in output cannot pass through a shell variable)")
				return
			}
			esc += fmt.Sprintf("\\%03o", b[i])
		}
		outs = append(outs, string(b))
		st := 0
		if v, _ := sc.Inputs[fmt.Sprintf("fails.%d", k)].(bool); v {
			st = 2
		}
		os.WriteFile(filepath.Join(dir, fmt.Sprintf("call.%d", k)), []byte(fmt.Sprintf("printf '%s'; exit %d\n", esc, st)), 0o644)
	}
	cnt := filepath.Join(dir, "count")
	os.WriteFile(cnt, nil, 0o644)
	seenOut := filepath.Join(dir, "seen-output")
	cmd := fmt.Sprintf("n=$(wc -l < %s); echo x >> %s; printf '%%s|' '{{.Output}}' >> %s; . %s/call.$((n))", cnt, cnt, seenOut, dir)
	p := task.FromCommands(cmd, cmd)
	p.Name = string(name)
	for v := 0; v < nv; v++ {
		p.Variations = append(p.Variations, map[string]string{"V": fmt.Sprint(v)})
	}
	p.AllowFailure, _ = sc.Inputs["allow_failure"].(bool)
	key := ""
	for _, c := range []byte(strings.ToUpper(string(name))) {
		if (c >= 'A' && c <= 'Z') || (c >= '0' && c <= '9') || c == '_' {
			key += string(c)
		} else {
			key += "_"
		}
	}
	key += "_OUTPUT"
	if exportAs {
		p.ExportAs = "EXPORTED"
		key = "EXPORTED"
	}
	r, _ := NewTaskRunner()
	sink := &strings.Builder{}
	r.Stdout, r.Stderr = sink, &strings.Builder{}
	perr := r.Run(p)
	// reference
	all := ""
	failedHard := false
	executed := 0
	for k := 0; k < calls; k++ {
		executed++
		all += outs[k]
		if v, _ := sc.Inputs[fmt.Sprintf("fails.%d", k)].(bool); v && !p.AllowFailure {
			failedHard = true
			break
		}
	}
	got := filepath.Join(dir, "consumer-saw")
	cons := task.FromCommands(fmt.Sprintf("if [ \"${%s+set}\" = set ]; then printf 'SET:%%s' \"$%s\" > %s; else printf UNSET > %s; fi", key, key, got, got))
	cons.Name = "consumer"
	r.Run(cons)
	raw, _ := os.ReadFile(got)
	var bad []string
	if p.Output() != all {
		bad = append(bad, fmt.Sprintf("captured output %q, commands printed %q", p.Output(), all))
	}
	if (perr != nil) != failedHard {
		bad = append(bad, "producer error does not match")
	}
	want := "SET:" + all
	if failedHard {
		want = "UNSET"
	}
	if string(raw) != want && !(strings.HasSuffix(all, "\n") && !failedHard) {
		bad = append(bad, fmt.Sprintf("consumer saw %q under %s, want %q", raw, key, want))
	}
	fmt.Printf("REPLAY: name=%q key=%s outputs=%q captured=%q consumer=%q err=%v\n", name, key, outs[:executed], p.Output(), raw, perr)
	if len(bad) > 0 {
		fmt.Println("REPLAY: reproduced:", strings.Join(bad, "; "))
	} else {
		fmt.Println("REPLAY: not-reproduced (real code satisfies the property on this input)")
	}
}
