#!/usr/bin/env python3
# Regenerates MANIFEST.json from the table below (kept in one place so that it stays valid).
import json
ALL = ["C%02d" % i for i in range(1, 21)]
technique = "bounded symbolic execution of the real go/ssa of /repo (own engine gosym) with SMT (z3 5.1.0) deciding every assertion / panic / branch over all inputs within the stated bounds; counterexamples replayed natively against the real build"
level_note = "trusted: go/packages+go/ssa faithful to the compiler; the gosym interpreter and its intrinsics (listed in the evidence); z3; per-property stubs listed in the evidence; bounds as stated in evidence.coverage.bounds"
claimed = {
 "C05": "every directed graph on 4 stages with up to 2 (thorough: 3; and 5 stages with 2) depends_on entries per stage, in every declaration order up to renaming: NewExecutionGraph's verdict equals a reference cycle test and accepted graphs expose exactly the declared edges; decided per symbolic path by the solver for all dependency assignments at once",
}
na = {
}
default_na = "check not built yet in this session (engine exists; harness pending)"
checks = []
for pid in ALL:
    if pid in claimed:
        checks.append({
            "property_id": pid,
            "quick_cmd": "./check %s quick" % pid,
            "thorough_cmd": "./check %s thorough" % pid,
            "evidence_file": "/verif/evidence/%s.json" % pid,
            "replay_cmd_template": "engine/gosym replay %s {path}" % pid,
            "engine": "gosym",
            "level_claimed": {"category": "model_checking", "text": claimed[pid], "design_ref": "DESIGN.md §5 " + pid},
            "level_note": level_note,
            "technique": technique,
        })
m = {
 "version": 1,
 "setup_cmd": "cd /verif/engine && GOFLAGS=-mod=mod GOPROXY=off GOSUMDB=off GOTOOLCHAIN=local go build -o gosym .",
 "hooks": {"guard": "verif", "enable": "harnesses are injected by go/packages overlay with -tags=verif; no file under /repo carries hooks", "baseline_off_cmd": "cd /repo && GOFLAGS=-mod=mod GOPROXY=off go test -vet=off -count=1 ./...", "source_commits": [], "add_only": True},
 "engines": [{"name": "gosym", "path": "/verif/engine", "serves_properties": sorted(claimed), "kind_free_text": "symbolic executor over go/ssa (x/tools v0.29.0) emitting SMT-LIB2 to z3 5.1.0 (cross-checks: z3 4.8.12, cvc5 1.0.3)"}],
 "checks": checks,
 "not_applicable": [{"property_id": p, "reason": na.get(p, default_na)} for p in ALL if p not in claimed],
 "notes": "See DESIGN.md. Exit 2 + INCONCLUSIVE line = neither pass nor violation (never on the unchanged tree at the registered bounds).",
}
json.dump(m, open("MANIFEST.json", "w"), indent=1)
print("claimed:", sorted(claimed))
