#!/usr/bin/env python3
# Regenerates MANIFEST.json from the table below (kept in one place so that it stays valid).
import json
ALL = ["C%02d" % i for i in range(1, 21)]
technique = "bounded symbolic execution of the real go/ssa of /repo (own engine gosym) with SMT (z3 5.1.0) deciding every assertion / panic / branch over all inputs within the stated bounds; counterexamples replayed natively against the real build"
level_note = "trusted: go/packages+go/ssa faithful to the compiler; the gosym interpreter and its intrinsics (listed in the evidence); z3; per-property stubs listed in the evidence; bounds as stated in evidence.coverage.bounds"
claimed = {
 "C20": "glue level: NewWatcher's include/exclude loop with the whole pattern x path match relation symbolic (observed paths == included and not excluded, decided per path for all relations), and the event filter + handler (real handle, real TaskRunner) for every subscribed subset and symbolic event types: an unsubscribed event runs nothing, the handler returns (no deadlock). One open known finding: a subscribed event does not run the task because the handler's Cancel leaves the runner cancelled for good",
 "C15": "panic reachability in taskctl's own loading code (Loader.load import handling, buildFromDefinition, buildTask, buildContext, buildPipeline, buildWatcher, utils.ReadEnvFile) over the shapes a parser can hand it: 10 shapes of the `import` value, 10 odd definitions (null entries, unreadable env_file, dir on a pipeline stage, neither/both of task and pipeline, empty sections), and all pairs of 7 env-file line shapes; any reachable nil dereference, failed type assertion or index out of range is a violation. The parsers themselves are outside (stated)",
 "C18": "real buildFromDefinition / buildPipeline / graph over definitions with two pipelines, three stages and a watcher whose task / pipeline / name / depends_on references are symbolic over universes containing unknown names and the pipelines themselves: an accepted configuration has every reference resolved, unique stage names and no inclusion cycle; accepted pipelines are then run by the real scheduler (thread mode) without abort or livelock",
 "C17": "real Loader.load / loadDir over 2-3 (thorough 4) files in two directories with symbolic import lists (files, a directory, a missing name; self / mutual / repeated imports), symbolic exists / parses per file, file system and parser stubbed: terminates, every reachable file is read exactly once and merged, relative imports resolve against the importing file's directory, and a missing or unparsable file in the closure makes the load fail",
 "C11": "wiring level: producer with 2 commands x up to 2 variations, each executed command printing arbitrary symbolic bytes; through the real TaskRunner.Run/execute/storeTaskOutput, TaskOutput and io.MultiWriter: captured output == concatenation in execution order, each command sees the previous command's output as .Output, a later task's environment holds exactly that text under <NAME>_OUTPUT (symbolic printable-ASCII names, sanitising checked per byte) or exportAs, nothing handed on when the producer failed hard",
 "C13": "wiring level with a symbolic clock: every job of a task with a timeout (before hook, commands, after hook) carries it; each Execute derives a fresh deadline of the full symbolic duration after the previous command finished; an overrun (deadline error) in a command or before hook fails the task and starts nothing further, also with allow_failure; an overrunning after hook does not fail the task; commands within their deadline are unaffected",
 "C08": "three stages sharing one task (different env / variables / dir overrides) in four dependency arrangements through the real buildTask, buildPipeline, Scheduler.Schedule and runStage in thread mode, then a second pipeline and a direct-run view: every stage's Run sees the task's own settings overlaid with exactly its own overrides, for all values, and the shared task is unchanged afterwards",
 "C14": "real ExecutionContext.Up/Before/After/Down, contextForTask, TaskRunner.Run and Finish with a recording executor stub and symbolic outcomes for every context and task command: up first and once, exactly one context-before block before and one context-after block after each task execution (also when it fails), nothing runs for a context whose up failed and Run reports an error, down exactly once and only for used contexts; two simultaneous runs on a fresh context under every interleaving (sync.Once); the CLI reaches Finish whether the target succeeded or failed",
 "C12": "thread-mode exploration of the real TaskRunner.Run / Cancel protocol (RWMutex, WaitGroup/channel, context) with 0..3 concurrent runs and Cancel called once or twice, every interleaving at visible operations (preemption-unbounded for <=1 run, bound 3 for 2, bound 1 for 3), symbolic command outcomes: no panic, no deadlock (Cancel and every Run return), no command starts after Cancel returned, interrupted / late runs report an error",
 "C01": "rely/guarantee over the real Scheduler.Schedule SSA: one pass from an arbitrary invariant state with symbolic worker interference at every atomic operation (all 3-stage graphs, symbolic allow_failure/outcome/condition): at every launch all dependencies are finished in memory at that instant; the real worker closure publishes a status only after the task returned; thread-mode whole runs (preemption bound 1; thorough 2) cross-check end to end",
 "C02": "same harnesses: the invariant (status compatible with the reference outcome class, error flag consistent) is preserved by every pass and every worker step, and at Schedule's return every stage's status equals the reference model and the returned error is non-nil iff a stage failed hard - for every interleaving, so the outcome is a function of graph and outcomes only",
 "C03": "same harnesses: a stage is launched only from Waiting, at most once per pass, nothing ever returns to Waiting; a pass never blocks or cancels; with nothing in flight a pass strictly reduces the number of waiting stages; at return nothing is waiting or running; thread-mode whole runs: Schedule returns and every eligible stage ran exactly once",
 "C04": "same harnesses: whatever other stages are doing, a pass that finds eligible stages starts at least one and never blocks; no task ever runs on the scheduling thread (a scheduler running stages inline passes the test-suite but fails here); the current code's stronger behaviour (all eligible in one pass) is a cover goal",
 "C09": "environment: one name at every subset of the six levels with independent symbolic values from an ordered 3-element domain, direct and as a stage, through the real buildTask/buildPipeline, TaskRunner.Run, TaskCompiler, runStage, DefaultExecutor.Execute and mvdan's expand.ListEnviron/Get: the command sees the highest level's value, unrelated parent variables pass through, TASK_NAME is the task name; directories: every subset of stage/task/context dir for hooks and command",
 "C10": "template variables: every subset of {configuration (as in cfg.Variables), --set, task, stage} through the real Before hook, rootAction, buildTaskRunner, runTask/runPipeline, TaskRunner.Run, compiler, runStage and Execute up to the template call; undefined variable => task fails and the command never reaches the interpreter; CLI arguments: every vector of up to 4 (thorough 5) words after the target over {--, t1, -x, a=b, w}: .Args/.ArgsList/$ARGS are exactly the words after the first --",
 "C06": "every task shape with up to 3 commands x 2 (thorough 3) variations x 2 before x 2 after x optional condition, run through the real TaskRunner.Run/before/after/execute/CompileTask with a symbolic outcome per executed command (success, any exit status 1..255, non-status error) and symbolic allow_failure: the sequence of executed commands and the skipped flag equal the reference semantics on every path",
 "C07": "task level: same runs as C06, asserting error <=> hard failure, errored flag and recorded exit status == the failing command's status for all 255 statuses at once (bit-vector conversion); CLI level: root action, `run`, `run task` on every argument vector of up to 3 (thorough 4) words over {task, task, pipeline, unknown, --} with symbolic target results, and main()'s abnormal exit <=> run() failed",
 "C19": "prefixed decorator (real bufio.ScanLines / bufio.Writer / lineWriter SSA): for every split of a stream into 2 writes of <=3 arbitrary bytes (no ESC) or 3 writes of <=2 bytes over {a,b,CR,LF} (thorough: 3x3, 2x4, 4x2): every sink write is one whole prefixed line, no LF inside, payload bytes == input bytes with CR/LF removed, in order; raw decorator forwards bytes unchanged call by call",
 "C05": "every directed graph on 4 stages with up to 2 (thorough: 3; and 5 stages with 2) depends_on entries per stage, in every declaration order up to renaming: NewExecutionGraph's verdict equals a reference cycle test and accepted graphs expose exactly the declared edges; decided per symbolic path by the solver for all dependency assignments at once",
}
na = {
 "C16": "the property is about yaml.v2 / encoding/json / go-toml / mapstructure agreeing on every key and value shape: reflection- and unsafe-heavy third-party code that cannot be encoded by the SSA executor; taskctl's own contribution is a four-way switch on the file extension, and a solver check of that switch would say nothing about the property (DESIGN.md §6)",
}
default_na = "check not built yet in this session (engine exists; harness pending)"
checks = []
for pid in ALL:
    if pid in claimed:
        checks.append({
            "property_id": pid,
            "quick_cmd": "./check %s quick" % pid,
            "thorough_cmd": "./check %s thorough" % pid,
            "evidence_file": "/verif/evidence/%s.json" % pid,
            "replay_cmd_template": "engine/gosym replay %s {path}" % pid,
            "engine": "gosym",
            "level_claimed": {"category": "model_checking", "text": claimed[pid], "design_ref": "DESIGN.md §5 " + pid},
            "level_note": level_note,
            "technique": technique,
        })
m = {
 "version": 1,
 "setup_cmd": "cd /verif/engine && GOFLAGS=-mod=mod GOPROXY=off GOSUMDB=off GOTOOLCHAIN=local go build -o gosym .",
 "hooks": {"guard": "verif", "enable": "harnesses are injected by go/packages overlay with -tags=verif; no file under /repo carries hooks", "baseline_off_cmd": "cd /repo && GOFLAGS=-mod=mod GOPROXY=off go test -vet=off -count=1 ./...", "source_commits": [], "add_only": True},
 "engines": [{"name": "gosym", "path": "/verif/engine", "serves_properties": sorted(claimed), "kind_free_text": "symbolic executor over go/ssa (x/tools v0.29.0) emitting SMT-LIB2 to z3 5.1.0 (cross-checks: z3 4.8.12, cvc5 1.0.3)"}],
 "checks": checks,
 "not_applicable": [{"property_id": p, "reason": na.get(p, default_na)} for p in ALL if p not in claimed],
 "notes": "See DESIGN.md. Exit 2 + INCONCLUSIVE line = neither pass nor violation (never on the unchanged tree at the registered bounds).",
}
json.dump(m, open("MANIFEST.json", "w"), indent=1)
print("claimed:", sorted(claimed))
