//go:build verif

package config

import (
	"os"
	"time"

	rt "github.com/taskctl/taskctl/internal/verifrt"
)

// Files: 0 /p/a.yaml (root), 1 /p/sub/c.yaml, 2 /p/sub/d.yaml, 3 /p/b.yaml; directory /p/sub (so that
// already with three files the directory holds two, one of which can import the other).
var c17Files = []string{"/p/a.yaml", "/p/sub/c.yaml", "/p/sub/d.yaml", "/p/b.yaml"}
var c17Short = []string{"a", "c", "d", "b"}

func c17InSub(k int) bool { return k == 1 || k == 2 }
var c17Digits = []string{"0", "1", "2"}

// import texts as written inside a file of /p and of /p/sub: target k = file k, 4 = the directory, 5 = a missing file
var c17FromTop = []string{"a.yaml", "sub/c.yaml", "sub/d.yaml", "b.yaml", "sub", "missing.yaml"}
var c17FromSub = []string{"../a.yaml", "c.yaml", "d.yaml", "../b.yaml", "../sub", "missing.yaml"}

type c17File struct {
	exists, parses bool
	imports        []string // texts
	targets        []int    // symbolic target ids
	m              map[string]interface{}
	reads          int
	mergedInto     []int
}

var c17Prefix = "C17" // "C15" when the harness runs for C15's "loading ends in bounded time" clause
var c17 []*c17File
var c17N int

type c17Info struct {
	dir  bool
	name string
}

func (i c17Info) Name() string       { return i.name }
func (i c17Info) Size() int64        { return 0 }
func (i c17Info) Mode() os.FileMode  { return 0 }
func (i c17Info) ModTime() time.Time { return time.Time{} }
func (i c17Info) IsDir() bool        { return i.dir }
func (i c17Info) Sys() interface{}   { return nil }

func c17Index(file string) int {
	for k := 0; k < c17N; k++ {
		if file == c17Files[k] {
			return k
		}
	}
	return -1
}

func c17FileExists(file string) bool {
	k := c17Index(file)
	if k < 0 {
		return false
	}
	return c17[k].exists
}

func c17Stat(name string) (os.FileInfo, error) {
	if name == "/p/sub" {
		return c17Info{dir: true}, nil
	}
	k := c17Index(name)
	if k < 0 || !c17[k].exists {
		return nil, rt.ErrorNew("no such file or directory")
	}
	return c17Info{}, nil
}

func c17ReadFile(cl *Loader, filename string) (map[string]interface{}, error) {
	k := c17Index(filename)
	rt.Assert(k >= 0, "C17.only-known-paths-are-read (relative imports resolved against the importing file)")
	if k < 0 {
		return nil, rt.ErrorNew("unexpected path")
	}
	f := c17[k]
	f.reads++
	if f.reads > 2 {
		// read again and again: the closure does not terminate (reported here rather than as an
		// exhausted unwinding bound; a second read is left to the exactly-once obligation below)
		rt.Assert(false, c17Prefix+".import-closure-terminates (no file is read again and again)")
		rt.Stop()
	}
	if !f.parses {
		return nil, rt.ErrorNew("yaml: parse error")
	}
	return f.m, nil
}

func c17Glob(pattern string) ([]string, error) {
	if pattern != "/p/sub/*.yaml" {
		return nil, nil
	}
	var out []string
	for k := 1; k <= 2 && k < c17N; k++ {
		if c17[k].exists {
			out = append(out, c17Files[k])
		}
	}
	return out, nil
}

func c17Merge(dst, src interface{}, opts ...interface{}) error {
	sm, _ := src.(map[string]interface{})
	dp, _ := dst.(*map[string]interface{})
	if dp == nil || sm == nil {
		return nil // merging a nil map is a no-op (what mergo does)
	}
	from, into := -1, -1
	for k := 0; k < c17N; k++ {
		if c17[k].m != nil {
			if rt.SameMap(c17[k].m, sm) {
				from = k
			}
			if rt.SameMap(c17[k].m, *dp) {
				into = k
			}
		}
	}
	if from >= 0 {
		c17[from].mergedInto = append(c17[from].mergedInto, into)
	}
	return nil
}

func c17IsURL(s string) bool { return false }

// the same directory through the other listing calls of the standard library
func c17ReadDir(dir string) ([]os.FileInfo, error) {
	if dir != "/p/sub" {
		return nil, rt.ErrorNew("no such directory")
	}
	var out []os.FileInfo
	for k := 1; k <= 2 && k < c17N; k++ {
		if c17[k].exists {
			out = append(out, c17Info{name: c17Files[k][len("/p/sub/"):]})
		}
	}
	return out, nil
}

// decoding the merged map into definitions is C15's subject; here the merged map is what is observed
func c17Decode(cl *Loader, cm map[string]interface{}) (*configDefinition, error) {
	return &configDefinition{}, nil
}

// VerifC17: n files (2..4); every file has 0..2 symbolic imports among the files, the directory /p/sub and a missing file.
func VerifC17(n, part int) {
	rt.Unwind(2000)
	c17N = n
	c17 = nil
	for k := 0; k < n; k++ {
		f := &c17File{exists: true, parses: true}
		if k > 0 {
			f.exists = rt.Bool("exists." + c17Short[k])
		}
		f.parses = rt.Bool("parses." + c17Short[k])
		cnt := part % 3 // the vector of import counts is fixed per job
		part /= 3
		rt.Observe("nimports."+c17Short[k], cnt)
		texts := c17FromTop
		if c17InSub(k) {
			texts = c17FromSub
		}
		var list []interface{}
		for l := 0; l < cnt; l++ {
			tgt := rt.Choice("import."+c17Short[k]+"."+c17Digits[l], len(texts))
			rt.Assume(rt.Or(tgt < n, tgt >= 4))
			txt := texts[tgt]
			f.imports = append(f.imports, txt)
			f.targets = append(f.targets, tgt)
			list = append(list, txt)
		}
		f.m = map[string]interface{}{"name": c17Short[k]}
		if cnt > 0 {
			f.m["import"] = list
		}
		c17 = append(c17, f)
	}
	rt.Redirect("github.com/taskctl/taskctl/pkg/utils.FileExists", c17FileExists)
	rt.Redirect("github.com/taskctl/taskctl/pkg/utils.IsURL", c17IsURL)
	rt.Redirect("os.Stat", c17Stat)
	rt.Redirect("(*github.com/taskctl/taskctl/internal/config.Loader).readFile", c17ReadFile)
	rt.Redirect("path/filepath.Glob", c17Glob)
	rt.Redirect("io/ioutil.ReadDir", c17ReadDir)
	rt.Redirect("github.com/imdario/mergo.Merge", c17Merge)

	rt.Redirect("(*github.com/taskctl/taskctl/internal/config.Loader).decode", c17Decode)

	// through the public entry point, so that whatever Load prepares for load() is in place;
	// the entry file is given the way the CLI gives it: relative to the working directory, or absolute
	cl := &Loader{dst: NewConfig(), imports: map[string]bool{"/p/stale.yaml": true}, dir: "/p"}
	entry := "/p/a.yaml"
	if rt.Bool("entry-given-relative") {
		entry = "a.yaml"
	}
	_, err := cl.Load(entry)

	// ---- reference: reachability through imports of files that loaded ----
	reach := make([]bool, n)
	broken := false // a reachable file is missing or does not parse, or a missing name is imported
	reach[0] = true
	for round := 0; round <= n; round++ {
		for k := 0; k < n; k++ {
			if !reach[k] {
				continue
			}
			f := c17[k]
			if !f.exists || !f.parses {
				continue
			}
			for _, t := range f.targets {
				switch {
				case t < n:
					reach[t] = true
				case t == 4:
					for j := 1; j <= 2 && j < n; j++ {
						if c17[j].exists {
							reach[j] = true
						}
					}
				}
			}
		}
	}
	for k := 0; k < n; k++ {
		f := c17[k]
		if reach[k] && (!f.exists || !f.parses) {
			broken = true
		}
		if reach[k] && f.exists && f.parses {
			for _, t := range f.targets {
				if t == 5 {
					broken = true
				}
			}
		}
	}
	rt.Assert(rt.Implies(broken, err != nil), "C17.missing-or-unparsable-import-fails-the-load")
	if !broken {
		rt.Cover("C17.all-imports-fine")
		rt.Assert(err == nil, "C17.sound-import-structure-loads")
		for k := 0; k < n; k++ {
			f := c17[k]
			if reach[k] {
				rt.Assert(f.reads == 1, "C17.every-reachable-file-read-exactly-once")
				if k > 0 {
					rt.Assert(len(f.mergedInto) >= 1, "C17.every-imported-file-is-merged-into-the-result")
				}
			} else {
				rt.Assert(f.reads == 0, "C17.unreachable-files-are-not-read")
			}
		}
	} else {
		rt.Cover("C17.broken-import")
	}
	cyc := false
	for k := 0; k < n; k++ {
		for _, t := range c17[k].targets {
			if t <= k {
				cyc = true
			}
		}
	}
	if cyc {
		rt.Cover("C17.import-cycle-or-self-import")
	}
}
