//go:build verif

package config

// Stubs for the harnesses that run the *real* DefaultExecutor.Execute up to the
// interpreter call: the shell parser and interpreter are replaced, the
// environment list construction (os.Environ + job env -> expand.ListEnviron) is real.

import (
	"context"
	"io"

	"mvdan.cc/sh/v3/interp"
	"mvdan.cc/sh/v3/syntax"

	rt "github.com/taskctl/taskctl/internal/verifrt"
)

type vSeen struct {
	Dir      string
	Foo      string
	FooSet   bool
	Other    string
	TaskName string
	Extra    string
}

var vInterpRuns []vSeen
var vParentEnv []string
var vStartDir = "/start"
var vEnvFile map[string]string
var vEnvFileErr error
var vProbe = "FOO"
var vExtraProbe = ""

func vInterpRun(r *interp.Runner, ctx context.Context, node syntax.Node) error {
	s := vSeen{Dir: r.Dir}
	v := r.Env.Get(vProbe)
	s.Foo, s.FooSet = v.Str, v.IsSet()
	s.Other = r.Env.Get("OTHER").Str
	s.TaskName = r.Env.Get("TASK_NAME").Str
	if vExtraProbe != "" {
		s.Extra = r.Env.Get(vExtraProbe).Str
	}
	vInterpRuns = append(vInterpRuns, s)
	return nil
}

func vInterpNew(opts ...interp.RunnerOption) (*interp.Runner, error) { return &interp.Runner{}, nil }
func vStdIO(in io.Reader, out, err io.Writer) interp.RunnerOption    { return nil }
func vNewParser(opts ...syntax.ParserOption) *syntax.Parser          { return &syntax.Parser{} }
func vKeepComments(b bool) syntax.ParserOption                       { return nil }
func vParse(p *syntax.Parser, r io.Reader, name string) (*syntax.File, error) {
	return &syntax.File{}, nil
}
func vEnviron() []string                                  { return append([]string{}, vParentEnv...) }
func vGetwd() (string, error)                             { return vStartDir, nil }
func vRenderIdentity(t string, m map[string]interface{}) (string, error) { return t, nil }
func vReadEnvFile(name string) (map[string]string, error) { return vEnvFile, vEnvFileErr }

func vInstallExecStubs() {
	vInterpRuns = nil
	rt.Redirect("(*mvdan.cc/sh/v3/interp.Runner).Run", vInterpRun)
	rt.Redirect("mvdan.cc/sh/v3/interp.New", vInterpNew)
	rt.Redirect("mvdan.cc/sh/v3/interp.StdIO", vStdIO)
	rt.Redirect("mvdan.cc/sh/v3/syntax.NewParser", vNewParser)
	rt.Redirect("mvdan.cc/sh/v3/syntax.KeepComments", vKeepComments)
	rt.Redirect("(*mvdan.cc/sh/v3/syntax.Parser).Parse", vParse)
	rt.Redirect("os.Environ", vEnviron)
	rt.Redirect("os.Getwd", vGetwd)
	rt.Redirect("github.com/taskctl/taskctl/pkg/utils.RenderString", vRenderIdentity)
	rt.Redirect("github.com/taskctl/taskctl/pkg/utils.ReadEnvFile", vReadEnvFile)
}
