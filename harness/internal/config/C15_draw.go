//go:build verif

package config

import (
	rt "github.com/taskctl/taskctl/internal/verifrt"
)

// Inclusion structures for the `graph` command (C15: "the list, show, graph and validate commands
// never crash on what was loaded"): two pipelines p1, p2 with two stages each; every stage is one
// of: task t1 / pipeline p1 / pipeline p2 / both task t1 and pipeline p1 / both and p2.
// The harness of package main (VerifC15Draw) runs the real draw() on what this accepts.

var C15DrawShapes [4]int

func c15DrawStage(name string, k int) *stageDefinition {
	sh := rt.Concrete(rt.Choice("stage."+name+".shape", 5))
	C15DrawShapes[k] = sh
	sd := &stageDefinition{Name: name}
	switch sh {
	case 0:
		sd.Task = "t1"
	case 1:
		sd.Pipeline = "p1"
	case 2:
		sd.Pipeline = "p2"
	case 3:
		sd.Task, sd.Pipeline = "t1", "p1"
	default:
		sd.Task, sd.Pipeline = "t1", "p2"
	}
	return sd
}

// VerifC15DrawCfg builds the configuration through the real buildFromDefinition.
func VerifC15DrawCfg() (*Config, error) {
	def := &configDefinition{
		Tasks: map[string]*taskDefinition{"t1": {Command: []string{"true"}}},
		Pipelines: map[string][]*stageDefinition{
			"p1": {c15DrawStage("a", 0), c15DrawStage("b", 1)},
			"p2": {c15DrawStage("c", 2), c15DrawStage("d", 3)},
		},
	}
	return buildFromDefinition(def, &loaderContext{Dir: "/proj"})
}
