//go:build verif

package config

import (
	"context"
	"io"

	"mvdan.cc/sh/v3/interp"
	"mvdan.cc/sh/v3/syntax"

	rt "github.com/taskctl/taskctl/internal/verifrt"
	"github.com/taskctl/taskctl/pkg/output"
	"github.com/taskctl/taskctl/pkg/runner"
)

// C11 with the REAL executor: DefaultExecutor.Execute's output bookkeeping (the shared buffer and
// its offset), the io.MultiWriter wiring of NewDefaultExecutor and of TaskOutput are executed; only
// the interpreter is a stub that prints symbolic bytes to the stdout / stderr it was configured with.

var e11Out, e11Err io.Writer
var e11Printed []string // what each command printed on stdout
var e11SeenOutput []string
var e11PrintedErr []bool
var e11LastVars map[string]interface{}
var e11D = []string{"0", "1", "2", "3", "4", "5"}

func e11StdIO(in io.Reader, out, err io.Writer) interp.RunnerOption {
	e11Out, e11Err = out, err
	return nil
}

func e11Render(t string, m map[string]interface{}) (string, error) {
	if t == "c0" || t == "c1" || t == "c2" {
		s, _ := m["Output"].(string)
		e11SeenOutput = append(e11SeenOutput, s)
	}
	return t, nil
}

var e11Consumer bool
var e11ConsumerSaw, e11ConsumerSawDefault string
var e11ExportName string

var e11Ansi bool
var e11AnsiTexts = []string{"p", "\x1b[32mq\x1b[0m", "r\n\x1b[1ms", "\x1b[31m"}

func e11InterpRun(r *interp.Runner, ctx context.Context, node syntax.Node) error {
	if e11Ansi && !e11Consumer {
		// coloured output: one of a few concrete texts with escape sequences
		k := len(e11Printed)
		out := e11AnsiTexts[rt.Concrete(rt.Choice("ansi-text."+e11D[k], len(e11AnsiTexts)))]
		e11Out.Write([]byte(out))
		e11PrintedErr = append(e11PrintedErr, false)
		e11Printed = append(e11Printed, out)
		return nil
	}
	if e11Consumer {
		// a later task: what it finds under the producer's exported name
		e11ConsumerSaw = r.Env.Get(e11ExportName).Str
		e11ConsumerSawDefault = r.Env.Get("PROD_OUTPUT").Str
		return nil
	}
	k := len(e11Printed)
	n := rt.Concrete(rt.Choice("outlen."+e11D[k], 3))
	out := make([]byte, n)
	for i := range out {
		out[i] = rt.Uint8("out." + e11D[k] + "." + e11D[i])
		rt.Assume(out[i] != 0) // an environment variable cannot carry a NUL byte
	}
	if n > 0 {
		e11Out.Write(out)
	}
	// something on stderr as well: it must not end up in the captured output
	toErr := rt.Bool("prints-to-stderr." + e11D[k])
	if toErr {
		eb := rt.Uint8("err." + e11D[k])
		rt.Assume(eb != 0)
		e11Err.Write([]byte{eb})
	}
	e11PrintedErr = append(e11PrintedErr, toErr)
	e11Printed = append(e11Printed, string(out))
	return nil
}

type e11Sink struct{}

func (e11Sink) Write(p []byte) (int, error) { return len(p), nil }

// VerifC11Ansi: the same with coloured output under the prefixed output format (the decorator strips
// escape sequences from what it shows; what is captured and exported must still be every byte).
func VerifC11Ansi(nc int) {
	e11Ansi = true
	VerifC11Exec(nc)
	e11Ansi = false
}

func VerifC11Exec(nc int) {
	vInstallExecStubs()
	rt.Redirect("mvdan.cc/sh/v3/interp.StdIO", e11StdIO)
	rt.Redirect("(*mvdan.cc/sh/v3/interp.Runner).Run", e11InterpRun)
	rt.Redirect("github.com/taskctl/taskctl/pkg/utils.RenderString", e11Render)
	e11Printed, e11SeenOutput, e11PrintedErr = nil, nil, nil
	e11Consumer, e11ConsumerSaw, e11ConsumerSawDefault = false, "", ""
	def := &taskDefinition{Name: "prod", Command: []string{"c0", "c1", "c2"}[:nc]}
	e11ExportName = "PROD_OUTPUT"
	if rt.Bool("exportAs-given") {
		def.ExportAs = "CHOSEN"
		e11ExportName = "CHOSEN"
	}
	t, err := buildTask(def, &loaderContext{Dir: "/proj"})
	rt.Assert(err == nil, "C11.task-built")
	r, _ := runner.NewTaskRunner()
	r.Stdout, r.Stderr = e11Sink{}, e11Sink{}
	if e11Ansi {
		r.OutputFormat = output.FormatPrefixed
	}
	rt.Assert(r.Run(t) == nil, "C11.exec.producer-ran")
	rt.Assert(len(e11Printed) == nc, "C11.exec.every-command-ran")
	all := ""
	for k := 0; k < len(e11Printed); k++ {
		all += e11Printed[k]
		if k < len(e11SeenOutput) {
			// "the previous command's output": its stdout exactly when it printed nothing on stderr; the
			// executor adds what it printed on stderr (the property does not say either way), so then only
			// "starts with its stdout" is demanded
			if k == 0 {
				rt.Assert(e11SeenOutput[k] == "", "C11.exec.first-command-sees-empty-.Output")
			} else if !e11PrintedErr[k-1] {
				rt.Assert(e11SeenOutput[k] == e11Printed[k-1], "C11.exec.command-sees-exactly-the-previous-command's-output-as-.Output")
			} else {
				prev := e11Printed[k-1]
				got := e11SeenOutput[k]
				rt.Assert(rt.And(len(got) >= len(prev), got[:len(prev)] == prev), "C11.exec.Output-starts-with-the-previous-command's-stdout")
			}
		}
	}
	rt.Assert(len(e11SeenOutput) == nc, "C11.exec.every-command-rendered")
	rt.Assert(t.Output() == all, "C11.exec.captured-output-is-exactly-the-stdout-bytes-in-order")
	// a task that runs later on the same runner finds exactly those bytes under the exported name
	cons, err := buildTask(&taskDefinition{Name: "cons", Command: []string{"k0"}}, &loaderContext{Dir: "/proj"})
	rt.Assert(err == nil, "C11.task-built")
	e11Consumer = true
	rt.Assert(r.Run(cons) == nil, "C11.exec.consumer-ran")
	rt.Assert(e11ConsumerSaw == all, "C11.exec.exported-variable-is-exactly-the-stdout-bytes-in-order")
	if e11ExportName != "PROD_OUTPUT" {
		rt.Assert(e11ConsumerSawDefault == "", "C11.exec.exportAs-replaces-the-default-name")
	}
	rt.Cover("C11.exec-checked")
}
