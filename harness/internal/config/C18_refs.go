//go:build verif

package config

import (
	"github.com/taskctl/taskctl/internal/watch"
	rt "github.com/taskctl/taskctl/internal/verifrt"
	"github.com/taskctl/taskctl/pkg/scheduler"
	"github.com/taskctl/taskctl/pkg/task"
)

// kinds 5-7 put a name of the other kind under the key (a task key naming a pipeline, a pipeline key
// naming a task): dangling; kinds 8-9 set both keys: the task is what the stage runs, nothing is included
var c18Kinds = []string{"task:t1", "task:nosuch", "pipeline:p1", "pipeline:p2", "pipeline:nosuchp", "task:p1", "task:p2", "pipeline:t1", "task:t1+pipeline:p1", "task:t1+pipeline:p2"}
var c18TaskOf = []string{"t1", "nosuch", "", "", "", "p1", "p2", "", "t1", "t1"}
var c18PipeOf = []string{"", "", "p1", "p2", "nosuchp", "", "", "t1", "p1", "p2"}
var c18DefName = []string{"t1", "nosuch", "p1", "p2", "nosuchp", "p1", "p2", "t1", "p1", "p2"}
var c18Names = []string{"", "x", "y"}
var c18Deps = []string{"x", "y", "t1", "p2", "zz"}
var c18Digits = []string{"0", "1", "2"}

type c18Stage struct {
	kind, name, dep int // symbolic choices (dep = -1: none)
	hasDep          bool
	effName         string
}

type c18Runner struct{}

var c18Ran int

func (c18Runner) Run(t *task.Task) error { c18Ran++; rt.Yield(); return nil }
func (c18Runner) Cancel()                {}
func (c18Runner) Finish()                {}

func c18NewWatcher(name string, events, w, exclude []string, t *task.Task) (*watch.Watcher, error) {
	return &watch.Watcher{}, nil
}

func c18MkStage(id string) (*stageDefinition, *c18Stage) {
	s := &c18Stage{}
	s.kind = rt.Choice("stage."+id+".kind", len(c18Kinds))
	s.name = rt.Choice("stage."+id+".name", len(c18Names))
	s.hasDep = rt.Bool("stage." + id + ".has-dep")
	s.dep = rt.Choice("stage."+id+".dep", len(c18Deps))
	def := &stageDefinition{Task: c18TaskOf[s.kind], Pipeline: c18PipeOf[s.kind], Name: c18Names[s.name]}
	if s.hasDep {
		def.DependsOn = []string{c18Deps[s.dep]}
	}
	// effective stage name: explicit, else the task / pipeline name
	s.effName = rt.IteStr(s.name != 0, c18Names[s.name], c18DefName[s.kind])
	return def, s
}

// VerifC18: pipeline p1 with two stages, p2 with one stage, one watcher; every reference symbolic
// over universes containing non-existent tasks / pipelines / stage names and the pipelines themselves.
func VerifC18(run int) {
	rt.Redirect("github.com/taskctl/taskctl/internal/watch.NewWatcher", c18NewWatcher)
	d0, s0 := c18MkStage("p1.0")
	d1, s1 := c18MkStage("p1.1")
	d2, s2 := c18MkStage("p2.0")
	wt := rt.Choice("watcher.task", 2)
	def := &configDefinition{
		Tasks:     map[string]*taskDefinition{"t1": {Command: []string{"true"}}},
		Pipelines: map[string][]*stageDefinition{"p1": {d0, d1}, "p2": {d2}},
		Watchers:  map[string]*watcherDefinition{"w": {Task: []string{"t1", "nosuch"}[wt], Watch: []string{"*.go"}}},
	}
	cfg, err := buildFromDefinition(def, &loaderContext{Dir: "/proj"})

	// ---- reference: is the definition well-formed? ----
	refOK := func(s *c18Stage) bool { return rt.Or(s.kind == 0, s.kind == 2, s.kind == 3, s.kind == 8, s.kind == 9) }
	depIn := func(s *c18Stage, others ...*c18Stage) bool {
		ok := false
		for _, o := range others {
			ok = rt.Or(ok, c18Deps[s.dep] == o.effName)
		}
		return rt.Or(rt.Not(s.hasDep), ok)
	}
	// inclusion: p1 includes p1/p2 through its stages, p2 through its stage
	p1inP1 := rt.Or(s0.kind == 2, s1.kind == 2)
	p1inP2 := rt.Or(s0.kind == 3, s1.kind == 3)
	p2inP1 := s2.kind == 2
	p2inP2 := s2.kind == 3
	inclCycle := rt.Or(p1inP1, p2inP2, rt.And(p1inP2, p2inP1))
	wellFormed := rt.And(
		refOK(s0), refOK(s1), refOK(s2),
		depIn(s0, s0, s1), depIn(s1, s0, s1), depIn(s2, s2),
		s0.effName != s1.effName,
		wt == 0,
		rt.Not(inclCycle),
	)
	rt.Observe("well-formed", wellFormed)
	if err != nil {
		rt.Cover("C18.rejected")
		return
	}
	rt.Cover("C18.accepted")
	rt.Assert(refOK(s0), "C18.accepted-stage-refers-to-an-existing-task-or-pipeline")
	rt.Assert(refOK(s1), "C18.accepted-stage-refers-to-an-existing-task-or-pipeline")
	rt.Assert(refOK(s2), "C18.accepted-stage-refers-to-an-existing-task-or-pipeline")
	rt.Assert(wt == 0, "C18.accepted-watcher-refers-to-an-existing-task")
	rt.Assert(s0.effName != s1.effName, "C18.accepted-stage-names-unique")
	rt.Assert(rt.And(depIn(s0, s0, s1), depIn(s1, s0, s1), depIn(s2, s2)), "C18.accepted-depends_on-names-a-stage-of-the-same-pipeline")
	rt.Assert(rt.Not(inclCycle), "C18.accepted-pipeline-does-not-include-itself")
	if run == 0 {
		return
	}
	// ---- consequence: running an accepted pipeline neither aborts the process nor hangs ----
	// (an abort / deadlock / livelock outcome of the path is reported by the engine)
	rt.ThreadMode(0)
	rt.Unwind(400)
	c18Ran = 0
	rt.Tag("running-accepted-pipeline")
	sd := scheduler.NewScheduler(c18Runner{})
	sd.Schedule(cfg.Pipelines["p1"])
	sd2 := scheduler.NewScheduler(c18Runner{})
	sd2.Schedule(cfg.Pipelines["p2"])
	rt.Cover("C18.accepted-pipelines-ran-to-completion")
	if wellFormed {
		rt.Cover("C18.well-formed-accepted")
	}
}
