//go:build verif

package config

// C15 "with any imports, loading ends in bounded time": the import harness of C17 run for C15's
// sake - only its termination obligation carries C15's label (the other obligations are C17's).
func VerifC15ImportClosure(n, part int) {
	c17Prefix = "C15"
	VerifC17(n, part)
}
