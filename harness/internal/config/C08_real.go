//go:build verif

package config

import (
	"context"

	rt "github.com/taskctl/taskctl/internal/verifrt"
	"github.com/taskctl/taskctl/pkg/executor"
	"github.com/taskctl/taskctl/pkg/runner"
	"github.com/taskctl/taskctl/pkg/scheduler"
)

// C08 with the REAL TaskRunner: what a command of each stage finally receives (job environment,
// variables, directory), after the runner has layered runner / context / task / stage settings.
// The shared task optionally uses a named execution context. Stages s0 and s1 override the common
// name K and one name of their own (A0, A1); s2 overrides nothing; then another pipeline and a
// direct run of the task on the same runner. The task's directory is a template over the variable
// K (s0 overrides K, s1 sets a literal directory of its own).

type r08Seen struct {
	Stage                 string
	EnvK, A0, A1, CtxOnly string
	HasA0, HasA1          bool
	VarK, Dir             string
}

var r08Runs []r08Seen

func r08Execute(e *executor.DefaultExecutor, ctx context.Context, job *executor.Job) ([]byte, error) {
	s := r08Seen{Dir: job.Dir}
	s.Stage = c08Str(job.Vars.Get(".Stage.Name"))
	s.EnvK = c08Str(job.Env.Get("K"))
	s.A0, s.HasA0 = c08Str(job.Env.Get("A0")), job.Env.Has("A0")
	s.A1, s.HasA1 = c08Str(job.Env.Get("A1")), job.Env.Has("A1")
	s.CtxOnly = c08Str(job.Env.Get("CTX_ONLY"))
	s.VarK = c08Str(job.Vars.Get("K"))
	r08Runs = append(r08Runs, s)
	return nil, nil
}
func r08NewExecutor(stdin interface{}, stdout, stderr interface{}) (*executor.DefaultExecutor, error) {
	return &executor.DefaultExecutor{}, nil
}
// the task's directory is a template over the variable K, which stage s0 overrides: a leading
// {{.K}} is replaced by the value of K in the variables the job is compiled with
func r08Render(t string, m map[string]interface{}) (string, error) {
	const ph = "{{.K}}"
	if len(t) >= len(ph) && t[:len(ph)] == ph {
		k, _ := m["K"].(string)
		return "/" + k + t[len(ph):], nil
	}
	return t, nil
}

func VerifC08Real(arr, preempt int) {
	rt.ThreadMode(preempt)
	rt.Redirect("(*github.com/taskctl/taskctl/pkg/executor.DefaultExecutor).Execute", r08Execute)
	rt.Redirect("github.com/taskctl/taskctl/pkg/executor.NewDefaultExecutor", r08NewExecutor)
	rt.Redirect("github.com/taskctl/taskctl/pkg/utils.RenderString", r08Render)
	r08Runs = nil
	vt, wt := rt.OneOf("task.env.K", c08Vals...), rt.OneOf("task.var.K", c08Vals...)
	v0, v1 := rt.OneOf("s0.env.K", c08Vals...), rt.OneOf("s1.env.K", c08Vals...)
	w0 := rt.OneOf("s0.var.K", c08Vals...)
	def := &taskDefinition{Name: "tk", Command: []string{"cmd"}, Dir: "{{.K}}-dir",
		Env: map[string]string{"K": vt}, Variables: map[string]string{"K": wt}}
	contexts := map[string]*runner.ExecutionContext{}
	named := rt.Bool("task-uses-a-named-context")
	if named {
		def.Context = "ctx"
		c, err := buildContext(&contextDefinition{Env: map[string]string{"CTX_ONLY": "from-context"}})
		rt.Assert(err == nil, "C08.context-built")
		contexts["ctx"] = c
	}
	t, err := buildTask(def, &loaderContext{Dir: "/proj"})
	rt.Assert(err == nil, "C08.task-built")
	cfg := NewConfig()
	cfg.Tasks["tk"] = t
	deps := [][][]string{{nil, nil, nil}, {nil, {"s0"}, {"s1"}}, {{"s1"}, {"s2"}, nil}}[arr]
	sds := []*stageDefinition{
		{Name: "s0", Task: "tk", DependsOn: deps[0], Env: map[string]string{"K": v0, "A0": "only-s0"}, Variables: map[string]string{"K": w0}},
		{Name: "s1", Task: "tk", DependsOn: deps[1], Dir: "/s1-dir", Env: map[string]string{"K": v1, "A1": "only-s1"}},
		{Name: "s2", Task: "tk", DependsOn: deps[2]},
	}
	g, _ := scheduler.NewExecutionGraph()
	g, err = buildPipeline(g, sds, cfg)
	rt.Assert(err == nil, "C08.pipeline-built")
	g2, _ := scheduler.NewExecutionGraph()
	g2, err = buildPipeline(g2, []*stageDefinition{{Name: "other", Task: "tk"}}, cfg)
	rt.Assert(err == nil, "C08.second-pipeline-built")
	if err != nil {
		return
	}
	r, err := runner.NewTaskRunner(runner.WithContexts(contexts))
	rt.Assert(err == nil, "C08.runner-created")
	sd := scheduler.NewScheduler(r)
	rt.Assert(sd.Schedule(g) == nil, "C08.pipeline-ran")
	rt.Assert(sd.Schedule(g2) == nil, "C08.second-pipeline-ran")
	rt.Assert(r.Run(cfg.Tasks["tk"]) == nil, "C08.direct-run-ran")

	rt.Assert(len(r08Runs) == 5, "C08.real.every-stage-and-the-direct-run-executed-one-command")
	for _, s := range r08Runs {
		// the task's dir is the template {{.K}}-dir: rendered with the variables of the stage that runs
		wantEnvK, wantVarK, wantDir := vt, wt, "/"+wt+"-dir"
		wantA0, wantA1 := false, false
		switch s.Stage {
		case "s0":
			wantEnvK, wantVarK, wantDir, wantA0 = v0, w0, "/"+w0+"-dir", true
		case "s1":
			wantEnvK, wantA1, wantDir = v1, true, "/s1-dir"
		case "s2", "other", "": // "" = the direct run
		default:
			rt.Assert(false, "C08.stage-marker-is-the-stage's-own")
		}
		rt.Assert(s.EnvK == wantEnvK, "C08.real.a-command-sees-the-task-env-overlaid-with-its-own-stage's")
		rt.Assert(rt.And(s.HasA0 == wantA0, s.HasA1 == wantA1), "C08.real.a-stage's-own-env-names-are-seen-by-that-stage-only")
		rt.Assert(s.VarK == wantVarK, "C08.real.a-command-sees-the-task-variables-overlaid-with-its-own-stage's")
		rt.Assert(s.Dir == wantDir, "C08.real.a-command-runs-in-its-stage's-dir-or-the-task's")
		if named {
			rt.Assert(s.CtxOnly == "from-context", "C08.real.the-context's-env-reaches-every-command")
		}
	}
	rt.Cover("C08.real-checked")
}
