//go:build verif

package config

import (
	rt "github.com/taskctl/taskctl/internal/verifrt"
	"github.com/taskctl/taskctl/pkg/runner"
	"github.com/taskctl/taskctl/pkg/scheduler"
	"github.com/taskctl/taskctl/pkg/task"
	"github.com/taskctl/taskctl/pkg/variables"
)

var c09Levels = []string{"parent", "context", "envfile", "task", "stage", "variation"}
var c09Values = []string{"a", "m", "z", ""} // the empty value since seed C09-9 (defined-but-empty is a definition)

// VerifC09Env: one name (FOO) defined at the levels selected by mask (bit l =
// level l of parent, context, env_file, task env, stage env, variation), each
// with its own symbolic value; an unrelated parent variable OTHER. The task is
// built by the real buildTask / buildPipeline and run by the real TaskRunner and
// DefaultExecutor.Execute; the interpreter stub reads the environment list
// through the real expand.ListEnviron. free=1: values are arbitrary strings of
// length <= 2 instead of members of {a, m, z}.
func VerifC09Env(mask, viaStage, free int) {
	vInstallExecStubs()
	val := make([]string, 6)
	has := make([]bool, 6)
	for l := 0; l < 6; l++ {
		has[l] = mask&(1<<l) != 0
		if has[l] {
			if free >= 1 {
				val[l] = rt.StrN("value."+c09Levels[l], free) // `free` arbitrary printable bytes
			} else {
				val[l] = rt.OneOf("value."+c09Levels[l], c09Values...)
			}
		}
	}
	other := rt.OneOf("value.other", c09Values...)
	vParentEnv = []string{"OTHER=" + other}
	if has[0] {
		vParentEnv = append(vParentEnv, "FOO="+val[0])
	}
	ctxEnv := map[string]string{}
	if has[1] {
		ctxEnv["FOO"] = val[1]
	}
	ctx := runner.NewExecutionContext(nil, "", variables.FromMap(ctxEnv), nil, nil, nil, nil)
	def := &taskDefinition{Name: "tk", Command: []string{"cmd"}, Context: "ctx"}
	if has[2] {
		def.EnvFile = "env.file"
		vEnvFile = map[string]string{"FOO": val[2]}
	}
	if has[3] {
		def.Env = map[string]string{"FOO": val[3]}
	}
	if has[5] {
		def.Variations = []map[string]string{{"FOO": val[5]}}
	}
	// optionally a second variation that does not define the name (only one of its own): what the
	// first variation set is not "the current variation" for the second one
	second := rt.Bool("a-second-variation-that-does-not-define-the-name")
	vExtraProbe = ""
	if second {
		first := map[string]string{"ONLY_FIRST": "1"}
		if has[5] {
			first["FOO"] = val[5]
		}
		def.Variations = []map[string]string{first, {"ONLY_SECOND": "2"}}
		vExtraProbe = "ONLY_FIRST"
	}
	t, err := buildTask(def, &loaderContext{Dir: "/proj"})
	rt.Assert(err == nil, "C09.task-built")
	if err != nil {
		return
	}
	r, err := runner.NewTaskRunner(runner.WithContexts(map[string]*runner.ExecutionContext{"ctx": ctx}))
	rt.Assert(err == nil, "C09.runner-built")

	if viaStage == 1 {
		cfg := NewConfig()
		cfg.Tasks["tk"] = t
		sd := &stageDefinition{Name: "s", Task: "tk"}
		if has[4] {
			sd.Env = map[string]string{"FOO": val[4]}
		}
		g, _ := scheduler.NewExecutionGraph()
		g, err = buildPipeline(g, []*stageDefinition{sd}, cfg)
		rt.Assert(err == nil, "C09.pipeline-built")
		if err != nil {
			return
		}
		rt.Assert(scheduler.NewScheduler(r).Schedule(g) == nil, "C09.pipeline-ran")
	} else {
		rt.Assume(!has[4])
		rt.Assert(r.Run(t) == nil, "C09.task-ran")
	}

	if second {
		rt.Assert(len(vInterpRuns) == 2, "C09.command-executed-once-per-variation")
		if len(vInterpRuns) != 2 {
			return
		}
		// the second variation's command: the variation level is absent for it
		s2 := vInterpRuns[1]
		w2, w2Set := "", false
		for l := 0; l < 5; l++ {
			if has[l] {
				w2, w2Set = val[l], true
			}
		}
		rt.Assert(s2.FooSet == w2Set, "C09.second-variation.name-defined-iff-a-level-below-the-variation-defines-it")
		rt.Assert(s2.Foo == w2, "C09.second-variation.an-earlier-variation's-value-is-not-the-current-variation's")
		rt.Assert(s2.Extra == "", "C09.second-variation.does-not-see-the-first-variation's-own-names")
		rt.Assert(vInterpRuns[0].Extra == "1", "C09.first-variation-sees-its-own-names")
		rt.Cover("C09.two-variations")
	} else {
		rt.Assert(len(vInterpRuns) == 1, "C09.command-executed-once")
		if len(vInterpRuns) != 1 {
			return
		}
	}
	seen := vInterpRuns[0]
	// expected: the highest level present
	want, wantSet := "", false
	for l := 0; l < 6; l++ {
		if has[l] {
			want, wantSet = val[l], true
		}
	}
	rt.Observe("seen.FOO", seen.Foo)
	rt.Observe("want.FOO", want)
	rt.Assert(seen.FooSet == wantSet, "C09.name-defined-iff-some-level-defines-it")
	rt.Assert(seen.Foo == want, "C09.highest-level-wins")
	rt.Assert(seen.Other == other, "C09.unrelated-parent-variable-passes-through")
	rt.Assert(seen.TaskName == "tk", "C09.TASK_NAME-is-the-task-name")
	if mask&(mask-1) != 0 {
		rt.Cover("C09.two-levels-define-the-name")
	}
	rt.Cover("C09.command-saw-environment")
}

// VerifC09Dir: stage dir / task dir / context dir present per mask bits 0..2;
// every command of the task (before hook, command, after hook) must run in the
// first non-empty of stage, task, context dir, else the start directory.
// c09Render: the substitution of a directory template, as far as C09 needs it: a leading
// {{.D}} is replaced by the value of the variable D (everything else is left alone)
func c09Render(t string, m map[string]interface{}) (string, error) {
	const ph = "{{.D}}"
	if len(t) >= len(ph) && t[:len(ph)] == ph {
		d, _ := m["D"].(string)
		return d + t[len(ph):], nil
	}
	return t, nil
}

func VerifC09Dir(mask, viaStage int) {
	vInstallExecStubs()
	rt.Redirect("github.com/taskctl/taskctl/pkg/utils.RenderString", c09Render)
	vParentEnv = nil
	hasStage, hasTask, hasCtx := mask&1 != 0, mask&2 != 0, mask&4 != 0
	def := &taskDefinition{Name: "tk", Command: []string{"cmd"}, Before: []string{"b"}, After: []string{"a"}}
	// directories given literally, or as templates over a task variable ("after variable substitution")
	base := ""
	if rt.Bool("dirs-are-templates") {
		base = "{{.D}}"
		def.Variables = map[string]string{"D": "/base"}
	}
	if hasTask {
		def.Dir = base + "/task-dir"
	}
	contexts := map[string]*runner.ExecutionContext{}
	if hasCtx {
		def.Context = "ctx"
		c, err := buildContext(&contextDefinition{Dir: base + "/ctx-dir"})
		rt.Assert(err == nil, "C09.context-built")
		contexts["ctx"] = c
	}
	t, err := buildTask(def, &loaderContext{Dir: "/proj"})
	rt.Assert(err == nil, "C09.task-built")
	r, _ := runner.NewTaskRunner(runner.WithContexts(contexts))
	if viaStage == 1 {
		cfg := NewConfig()
		cfg.Tasks["tk"] = t
		sd := &stageDefinition{Name: "s", Task: "tk"}
		if hasStage {
			sd.Dir = base + "/stage-dir"
		}
		g, _ := scheduler.NewExecutionGraph()
		g, err = buildPipeline(g, []*stageDefinition{sd}, cfg)
		rt.Assert(err == nil, "C09.pipeline-built")
		if err != nil {
			return
		}
		rt.Assert(scheduler.NewScheduler(r).Schedule(g) == nil, "C09.pipeline-ran")
	} else {
		rt.Assume(!hasStage)
		rt.Assert(r.Run(t) == nil, "C09.task-ran")
	}
	want := vStartDir
	rbase := ""
	if base != "" {
		rbase = "/base"
	}
	if hasCtx {
		want = rbase + "/ctx-dir"
	}
	if hasTask {
		want = rbase + "/task-dir"
	}
	if hasStage {
		want = rbase + "/stage-dir"
	}
	rt.Assert(len(vInterpRuns) == 3, "C09.hooks-and-command-executed")
	for i := range vInterpRuns {
		rt.Assert(vInterpRuns[i].Dir == want, "C09.dir-precedence")
	}
	rt.Cover("C09.dir-checked")
	_ = task.NewTask
}
