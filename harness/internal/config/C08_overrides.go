//go:build verif

package config

import (
	rt "github.com/taskctl/taskctl/internal/verifrt"
	"github.com/taskctl/taskctl/pkg/scheduler"
	"github.com/taskctl/taskctl/pkg/task"
)

type c08Seen struct {
	Stage            string
	EnvK, EnvT, VarK string
	VarT             string
	Dir              string
}

var c08Runs []c08Seen

type c08Runner struct{}

func c08Str(v interface{}) string { s, _ := v.(string); return s }

func (c08Runner) Run(t *task.Task) error {
	s := c08Seen{Dir: t.Dir}
	s.Stage = c08Str(t.Variables.Get(".Stage.Name")) // set for every stage by buildPipeline
	s.EnvK = c08Str(t.Env.Get("K"))
	s.EnvT = c08Str(t.Env.Get("T"))
	s.VarK = c08Str(t.Variables.Get("K"))
	s.VarT = c08Str(t.Variables.Get("T"))
	c08Runs = append(c08Runs, s)
	rt.Yield()
	return nil
}
func (c08Runner) Cancel() {}
func (c08Runner) Finish() {}

var c08Vals = []string{"p", "q", "r"}
var c08StageNames = []string{"s0", "s1", "s2"}

// VerifC08: four stages share one task. Stage s0 overrides env K, variable K
// and dir; s1 overrides env K only; s2 overrides nothing. arr: 0 all parallel,
// 1 chain s0->s1->s2, 2 chain s2->s1->s0 (stages with overrides run last), 3
// mixed (s1, s2 after s0). A second pipeline and a direct run use the task afterwards.
func VerifC08(arr, preempt int) {
	rt.ThreadMode(preempt)
	c08Runs = nil
	vt, wt := rt.OneOf("task.env.K", c08Vals...), rt.OneOf("task.var.K", c08Vals...)
	v0, w0 := rt.OneOf("s0.env.K", c08Vals...), rt.OneOf("s0.var.K", c08Vals...)
	v1 := rt.OneOf("s1.env.K", c08Vals...)
	w3 := rt.OneOf("s3.var.K", c08Vals...)
	def := &taskDefinition{Name: "tk", Command: []string{"cmd"}, Dir: "/task-dir",
		Env: map[string]string{"K": vt, "T": "task-only"}, Variables: map[string]string{"K": wt, "T": "task-var"}}
	t, err := buildTask(def, &loaderContext{Dir: "/proj"})
	rt.Assert(err == nil, "C08.task-built")
	cfg := NewConfig()
	cfg.Tasks["tk"] = t
	// s3 overrides a VARIABLE only (no env, no dir); s2 and the other pipeline's stage override nothing
	deps := [][][]string{
		{nil, nil, nil, nil},
		{nil, {"s0"}, {"s1"}, {"s2"}},
		{{"s1"}, {"s2"}, {"s3"}, nil},
		{nil, {"s0"}, {"s0"}, {"s0"}},
	}[arr]
	sds := []*stageDefinition{
		{Name: "s0", Task: "tk", DependsOn: deps[0], Dir: "/s0-dir", Env: map[string]string{"K": v0}, Variables: map[string]string{"K": w0}},
		{Name: "s1", Task: "tk", DependsOn: deps[1], Env: map[string]string{"K": v1}},
		{Name: "s2", Task: "tk", DependsOn: deps[2]},
		{Name: "s3", Task: "tk", DependsOn: deps[3], Variables: map[string]string{"K": w3}},
	}
	g, _ := scheduler.NewExecutionGraph()
	g, err = buildPipeline(g, sds, cfg)
	rt.Assert(err == nil, "C08.pipeline-built")
	g2, _ := scheduler.NewExecutionGraph()
	g2, err = buildPipeline(g2, []*stageDefinition{{Name: "other", Task: "tk"}}, cfg)
	rt.Assert(err == nil, "C08.second-pipeline-built")
	if err != nil {
		return
	}
	sd := scheduler.NewScheduler(c08Runner{})
	rt.Assert(sd.Schedule(g) == nil, "C08.pipeline-ran")
	rt.Assert(sd.Schedule(g2) == nil, "C08.second-pipeline-ran")

	rt.Assert(len(c08Runs) == 5, "C08.every-stage-ran-once")
	for _, s := range c08Runs {
		wantEnvK, wantVarK, wantDir := vt, wt, "/task-dir"
		switch s.Stage {
		case "s0":
			wantEnvK, wantVarK, wantDir = v0, w0, "/s0-dir"
		case "s1":
			wantEnvK = v1
		case "s3":
			wantVarK = w3
		case "s2", "other":
		default:
			rt.Assert(false, "C08.stage-marker-is-the-stage's-own")
		}
		rt.Assert(s.EnvK == wantEnvK, "C08.stage-env-is-task-env-overlaid-with-its-own")
		rt.Assert(s.EnvT == "task-only", "C08.stage-env-keeps-the-task's-own-entries")
		rt.Assert(s.VarK == wantVarK, "C08.stage-variables-are-task-variables-overlaid-with-its-own")
		rt.Assert(s.VarT == "task-var", "C08.stage-variables-keep-the-task's-own-entries")
		rt.Assert(s.Dir == wantDir, "C08.stage-dir-is-its-own-or-the-task's")
	}
	// a direct run afterwards sees the task's own settings
	d := cfg.Tasks["tk"]
	rt.Assert(c08Str(d.Env.Get("K")) == vt, "C08.direct-run-sees-the-task's-own-env")
	rt.Assert(d.Variables.Has(".Stage.Name") == false, "C08.direct-run-sees-no-stage-variable")
	rt.Assert(c08Str(d.Variables.Get("K")) == wt, "C08.direct-run-sees-the-task's-own-variables")
	rt.Assert(d.Dir == "/task-dir", "C08.direct-run-sees-the-task's-own-dir")
	rt.Cover("C08.checked")
}
