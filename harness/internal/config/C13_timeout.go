//go:build verif

package config

import (
	"context"
	"time"

	"mvdan.cc/sh/v3/interp"
	"mvdan.cc/sh/v3/syntax"

	rt "github.com/taskctl/taskctl/internal/verifrt"
	"github.com/taskctl/taskctl/pkg/runner"
)

type c13Call struct {
	Cmd         string
	HasDeadline bool
	FreshEnough bool // deadline >= (finish time of the previous command) + timeout
	Overran     bool
	Failed      bool
}

var c13Calls []c13Call
var c13LastCmd string
var c13LastFinish int64
var c13Timeout int64
var c13Digits = []string{"0", "1", "2", "3", "4", "5", "6", "7", "8", "9"}

func c13Render(t string, m map[string]interface{}) (string, error) { c13LastCmd = t; return t, nil }

// How long the interpreter lets a command that ignores the interrupt live after its deadline: the
// library's default handler escalates to a kill after 2 s; an executor that installs the default
// handler with another grace period changes "terminated shortly afterwards".
var c13Grace time.Duration

func c13DefaultExecHandler(killTimeout time.Duration) interp.ExecHandlerFunc {
	c13Grace = killTimeout
	return nil
}
func c13ExecHandlerOpt(f interp.ExecHandlerFunc) interp.RunnerOption { return nil }

// c13InterpRun: the command starts now, would take a symbolic duration, and is cut
// short with the context's deadline error if that would pass its deadline.
func c13InterpRun(r *interp.Runner, ctx context.Context, node syntax.Node) error {
	k := len(c13Calls)
	start := rt.Now()
	dl, has := rt.CtxDeadline(ctx)
	dur := rt.Int64("duration." + c13Digits[k])
	rt.Assume(rt.And(dur >= 0, dur < 1<<40))
	c := c13Call{Cmd: c13LastCmd, HasDeadline: has}
	c.FreshEnough = dl >= c13LastFinish+c13Timeout
	if rt.And(has, start+dur > dl) {
		c.Overran, c.Failed = true, true
		rt.AdvanceTo(dl)
		c13LastFinish = rt.Ite64(dl > start, dl, start)
		c13Calls = append(c13Calls, c)
		return context.DeadlineExceeded
	}
	rt.AdvanceTo(start + dur)
	c13LastFinish = start + dur
	var err error
	if rt.Bool("exits-nonzero." + c13Digits[k]) {
		c.Failed = true
		err = interp.NewExitStatus(1)
	}
	c13Calls = append(c13Calls, c)
	return err
}

// VerifC13: task with before b0, commands c0 c1 (nv variations), after a0; timeout present iff withTimeout.
// withCond = 1 adds a task condition (evaluated first; it carries the timeout as well).
func VerifC13(withTimeout, nv, withCond int) {
	vInstallExecStubs()
	rt.SymbolicTime()
	rt.Redirect("(*mvdan.cc/sh/v3/interp.Runner).Run", c13InterpRun)
	rt.Redirect("github.com/taskctl/taskctl/pkg/utils.RenderString", c13Render)
	rt.Redirect("mvdan.cc/sh/v3/interp.DefaultExecHandler", c13DefaultExecHandler)
	rt.Redirect("mvdan.cc/sh/v3/interp.ExecHandler", c13ExecHandlerOpt)
	c13Grace = 2 * time.Second
	c13Calls = nil
	c13LastFinish = rt.Now()
	def := &taskDefinition{Name: "tk", Command: []string{"c0", "c1"}, Before: []string{"b0"}, After: []string{"a0"}}
	if withCond == 1 {
		def.Condition = "cond"
	}
	def.AllowFailure = rt.Bool("allow_failure")
	c13Timeout = 0
	if withTimeout == 1 {
		d := rt.Int64("timeout")
		rt.Assume(rt.And(d > 0, d < 1<<40))
		c13Timeout = d
		td := time.Duration(d)
		def.Timeout = &td
	}
	for v := 0; v < nv; v++ {
		def.Variations = append(def.Variations, map[string]string{"V": c13Digits[v]})
	}
	t, err := buildTask(def, &loaderContext{Dir: "/proj"})
	rt.Assert(err == nil, "C13.task-built")
	r, _ := runner.NewTaskRunner()
	runErr := r.Run(t)
	rt.Assert(c13Grace <= 2*time.Second, "C13.an-overrunning-command-is-killed-shortly-after-its-deadline (grace period handed to the interpreter)")

	// reference: b0, then per variation c0 c1, then a0
	var order []string
	if withCond == 1 {
		order = append(order, "cond")
	}
	order = append(order, "b0")
	vars := nv
	if vars == 0 {
		vars = 1
	}
	for v := 0; v < vars; v++ {
		order = append(order, "c0", "c1")
	}
	order = append(order, "a0")
	mustFail, overran, skippedByCond := false, false, false
	i := 0
	for ; i < len(order); i++ {
		if i >= len(c13Calls) {
			break
		}
		c := c13Calls[i]
		rt.Assert(c.Cmd == order[i], "C13.commands-run-in-order")
		if withTimeout == 1 {
			rt.Assert(c.HasDeadline, "C13.every-command-and-hook-carries-the-timeout")
			rt.Assert(c.FreshEnough, "C13.each-command-gets-the-full-timeout")
		} else {
			rt.Assert(!c.HasDeadline, "C13.no-deadline-without-timeout")
		}
		isAfter := order[i] == "a0"
		if c.Overran {
			overran = true
			rt.Cover("C13.a-command-overran")
		}
		if order[i] == "cond" && c.Failed {
			// a condition that exits non-zero skips the task (no error); one that overruns fails it
			if c.Overran {
				mustFail = true
			} else {
				skippedByCond = true
			}
			i++
			break
		}
		if c.Failed && !isAfter {
			if order[i] == "b0" || c.Overran || !t.AllowFailure {
				mustFail = true
				i++
				break
			}
		}
	}
	rt.Assert(len(c13Calls) == i, "C13.nothing-starts-after-an-overrun-or-failure")
	rt.Assert((runErr != nil) == mustFail, "C13.task-fails-iff-a-command-overran-or-failed-hard")
	if overran && mustFail {
		rt.Cover("C13.overrun-failed-the-task")
		if t.AllowFailure {
			rt.Cover("C13.overrun-fails-even-with-allow-failure")
		}
	}
	if len(c13Calls) == len(order) && c13Calls[len(order)-1].Overran {
		rt.Cover("C13.after-hook-overran")
		rt.Assert(runErr == nil, "C13.overrunning-after-hook-does-not-fail-the-task")
	}
	if !overran && !mustFail && !skippedByCond {
		rt.Cover("C13.within-deadline-unaffected")
	}
	if skippedByCond {
		rt.Assert(t.Skipped, "C13.condition-within-deadline-skips-as-usual")
	}
}
