//go:build verif

package config

import (
	rt "github.com/taskctl/taskctl/internal/verifrt"
)

// C10, configuration level: `variables:` of the configuration file must be available as template
// variables (the lowest-precedence level). The real Loader.Load / buildFromDefinition /
// Config.merge are executed; the parsers and mapstructure are replaced by the decoded definition,
// and mergo.Merge by a model of its DOCUMENTED default behaviour on *Config (a destination field
// is filled from the source only when it is empty; maps receive the keys they do not have).

var c10Def *configDefinition

func c10Exists(f string) bool { return f == "/proj/tasks.yaml" }
func c10NotURL(string) bool    { return false }
func c10Load(cl *Loader, file string) (map[string]interface{}, error) {
	return map[string]interface{}{}, nil
}
func c10Decode(cl *Loader, m map[string]interface{}) (*configDefinition, error) { return c10Def, nil }

func c10MergoModel(dst, src interface{}, opts ...interface{}) error {
	d, _ := dst.(*Config)
	s, _ := src.(*Config)
	if d == nil || s == nil {
		return nil
	}
	for k, v := range s.Contexts {
		if _, ok := d.Contexts[k]; !ok {
			d.Contexts[k] = v
		}
	}
	for k, v := range s.Pipelines {
		if _, ok := d.Pipelines[k]; !ok {
			d.Pipelines[k] = v
		}
	}
	for k, v := range s.Tasks {
		if _, ok := d.Tasks[k]; !ok {
			d.Tasks[k] = v
		}
	}
	for k, v := range s.Watchers {
		if _, ok := d.Watchers[k]; !ok {
			d.Watchers[k] = v
		}
	}
	if len(d.Import) == 0 {
		d.Import = s.Import
	}
	if !d.Debug {
		d.Debug = s.Debug
	}
	if d.Output == "" {
		d.Output = s.Output
	}
	if d.Variables == nil { // an interface field that is already set is not "empty"
		d.Variables = s.Variables
	}
	return nil
}

func VerifC10ConfigVars() {
	rt.Redirect("github.com/taskctl/taskctl/pkg/utils.FileExists", c10Exists)
	rt.Redirect("github.com/taskctl/taskctl/pkg/utils.IsURL", c10NotURL)
	rt.Redirect("(*github.com/taskctl/taskctl/internal/config.Loader).load", c10Load)
	rt.Redirect("(*github.com/taskctl/taskctl/internal/config.Loader).decode", c10Decode)
	rt.Redirect("github.com/imdario/mergo.Merge", c10MergoModel)
	v := rt.OneOf("config.X", "a", "m", "z", "")
	c10Def = &configDefinition{
		Variables: map[string]string{"X": v},
		Tasks:     map[string]*taskDefinition{"t1": {Command: []string{"echo {{.X}}"}}},
	}
	cl := NewConfigLoader(NewConfig())
	cfg, err := cl.Load("/proj/tasks.yaml")
	rt.Assert(err == nil, "C10.configuration-loads")
	if err != nil || cfg == nil {
		return
	}
	rt.Assert(cfg.Tasks["t1"] != nil, "C10.configuration-tasks-loaded")
	rt.Assert(cfg.Variables.Has("X"), "C10.configuration-level-variables-are-defined")
	got, _ := cfg.Variables.Get("X").(string)
	rt.Assert(got == v, "C10.configuration-level-variable-has-its-value")
	rt.Assert(rt.And(cfg.Variables.Has("Root"), cfg.Variables.Has("TempDir")), "C10.builtins-Root-and-TempDir-defined-after-loading")
	rt.Cover("C10.configuration-level-checked")
}
