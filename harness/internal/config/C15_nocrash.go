//go:build verif

package config

import (
	"bufio"
	"os"
	"time"

	"github.com/taskctl/taskctl/internal/watch"
	rt "github.com/taskctl/taskctl/internal/verifrt"
	"github.com/taskctl/taskctl/pkg/task"
)

// C15: no shape of decoded configuration makes taskctl's own loading code panic.
// A panic on any path is reported by the engine as an outcome violation (outcome:panic:...).

func c15Exists(string) bool { return true }
func c15IsURL(string) bool   { return false }
type c15Info struct{}

func (c15Info) Name() string       { return "x" }
func (c15Info) Size() int64        { return 0 }
func (c15Info) Mode() os.FileMode  { return 0 }
func (c15Info) ModTime() time.Time { return time.Time{} }
func (c15Info) IsDir() bool        { return false }
func (c15Info) Sys() interface{}   { return nil }

func c15Stat(name string) (os.FileInfo, error) {
	return c15Info{}, nil
}

var c15Root map[string]interface{}

func c15ReadFile(cl *Loader, filename string) (map[string]interface{}, error) {
	if filename == "/p/root.yaml" {
		return c15Root, nil
	}
	return map[string]interface{}{"tasks": map[string]interface{}{}}, nil
}
func c15Merge(dst, src interface{}, opts ...interface{}) error { return nil }

// VerifC15Import: the value under "import" in the decoded document takes every shape a parser can produce.
func VerifC15Import(shape int) {
	rt.Redirect("github.com/taskctl/taskctl/pkg/utils.FileExists", c15Exists)
	rt.Redirect("github.com/taskctl/taskctl/pkg/utils.IsURL", c15IsURL)
	rt.Redirect("os.Stat", c15Stat)
	rt.Redirect("(*github.com/taskctl/taskctl/internal/config.Loader).readFile", c15ReadFile)
	rt.Redirect("github.com/imdario/mergo.Merge", c15Merge)
	var v interface{}
	switch shape {
	case 0:
		v = nil
	case 1:
		v = "other.yaml"
	case 2:
		v = 5
	case 3:
		v = true
	case 4:
		v = []interface{}{"other.yaml"}
	case 5:
		v = []interface{}{5}
	case 6:
		v = []interface{}{nil}
	case 7:
		v = map[string]interface{}{"a": "b"}
	case 8:
		v = map[interface{}]interface{}{"a": "b"}
	case 9:
		v = []interface{}{"other.yaml", []interface{}{"x"}}
	}
	c15Root = map[string]interface{}{"import": v}
	cl := &Loader{imports: map[string]bool{}, dir: "/p"}
	_, err := cl.load("/p/root.yaml")
	rt.Observe("import-shape", shape)
	rt.Assert(true, "C15.loading-ended-without-a-crash")
	if err != nil {
		rt.Cover("C15.import-shape-rejected-with-an-error")
	} else {
		rt.Cover("C15.import-shape-loaded")
	}
}

func c15NewWatcher(name string, events, w, exclude []string, t *task.Task) (*watch.Watcher, error) {
	return &watch.Watcher{}, nil
}

var c15EnvFileMissing bool

func c15ReadEnvFile(name string) (map[string]string, error) {
	if c15EnvFileMissing {
		return nil, rt.ErrorNew("open " + name + ": no such file or directory")
	}
	return map[string]string{"A": "1"}, nil
}

// VerifC15Build: definitions with null entries / odd combinations, as mapstructure produces them
// for documents like `tasks: {t1: }`. shape selects one oddity (0 = none).
func VerifC15Build(shape int) {
	rt.Redirect("github.com/taskctl/taskctl/internal/watch.NewWatcher", c15NewWatcher)
	rt.Redirect("github.com/taskctl/taskctl/pkg/utils.ReadEnvFile", c15ReadEnvFile)
	c15EnvFileMissing = false
	def := &configDefinition{
		Tasks:     map[string]*taskDefinition{"t1": {Command: []string{"true"}}},
		Contexts:  map[string]*contextDefinition{"c1": {Dir: "/ctx"}},
		Pipelines: map[string][]*stageDefinition{"p1": {{Task: "t1"}}, "p2": {{Task: "t1", Name: "s"}}},
		Watchers:  map[string]*watcherDefinition{"w": {Task: "t1"}},
	}
	switch shape {
	case 1:
		def.Tasks["t2"] = nil
	case 2:
		def.Contexts["c2"] = nil
	case 3:
		def.Pipelines["p1"] = append(def.Pipelines["p1"], nil)
	case 4:
		def.Watchers["w2"] = nil
	case 5:
		def.Tasks["t2"] = &taskDefinition{Command: []string{"true"}, EnvFile: "missing.env"}
		c15EnvFileMissing = true
	case 6:
		def.Pipelines["p1"] = append(def.Pipelines["p1"], &stageDefinition{Pipeline: "p2", Dir: "/somewhere"})
	case 7:
		def.Pipelines["p1"] = append(def.Pipelines["p1"], &stageDefinition{Name: "neither"})
	case 8:
		def.Pipelines["p1"] = append(def.Pipelines["p1"], &stageDefinition{Task: "t1", Pipeline: "p2", Name: "both"})
	case 9:
		def.Tasks["t2"] = &taskDefinition{} // no command at all
		def.Pipelines["p3"] = nil           // `p3:` with no stages
	case 10:
		def.Tasks = nil
		def.Pipelines = map[string][]*stageDefinition{"p1": {{Task: "t1"}}}
	}
	rt.Observe("definition-shape", shape)
	_, err := buildFromDefinition(def, &loaderContext{Dir: "/proj"})
	rt.Assert(true, "C15.building-ended-without-a-crash")
	if err != nil {
		rt.Cover("C15.odd-definition-rejected-with-an-error")
	} else {
		rt.Cover("C15.definition-built")
	}
}

// ---- env files: the real ReadEnvFile on arbitrary lines ----

var c15Lines []string
var c15LinePos int

func c15Open(name string) (*os.File, error) {
	if rt.Bool("env-file-missing") {
		return nil, rt.ErrorNew("open: no such file or directory")
	}
	return nil, nil
}
func c15Scan(s *bufio.Scanner) bool {
	if c15LinePos < len(c15Lines) {
		c15LinePos++
		return true
	}
	return false
}
func c15Text(s *bufio.Scanner) string { return c15Lines[c15LinePos-1] }
func c15Err(s *bufio.Scanner) error   { return nil }

var c15LineShapes = []string{"A=1", "A", "A=1=2", "=", "", "=x", "# comment", " ", "\t", "  # c", " A=1", "\t "}
var c15D = []string{"0", "1", "2"}

// the two lines are chosen by the job (all 144 pairs of the 12 line shapes are run; whitespace-only and indented lines since seed C15-8)
func VerifC15EnvFile(l0, l1 int) {
	rt.Redirect("os.Open", c15Open)
	rt.Redirect("(*bufio.Scanner).Scan", c15Scan)
	rt.Redirect("(*bufio.Scanner).Text", c15Text)
	rt.Redirect("(*bufio.Scanner).Err", c15Err)
	c15Lines, c15LinePos = nil, 0
	c15Lines = []string{c15LineShapes[l0], c15LineShapes[l1]}
	rt.Observe("line.0", c15Lines[0])
	rt.Observe("line.1", c15Lines[1])
	def := &taskDefinition{Name: "t", Command: []string{"true"}, EnvFile: "vars.env"}
	_, err := buildTask(def, &loaderContext{Dir: "/proj"})
	rt.Assert(true, "C15.env-file-read-ended-without-a-crash")
	if err != nil {
		rt.Cover("C15.env-file-rejected-with-an-error")
	} else {
		rt.Cover("C15.env-file-read")
	}
}

// ---- a grammar of definitions: every optional part independently absent / null / empty / present ----

var c15G = []string{"0", "1", "2", "3"}

func c15TaskDef(id string, shape int) *taskDefinition {
	rt.Observe("task."+id+".shape", shape)
	switch shape {
	case 0:
		return nil
	case 1:
		return &taskDefinition{}
	case 2:
		return &taskDefinition{Command: []string{"true"}, Context: "c1", Variations: []map[string]string{nil}}
	case 3:
		return &taskDefinition{Command: []string{}, Context: "nosuch", Before: []string{""}, After: nil, Env: map[string]string{}}
	case 4:
		return &taskDefinition{Name: "renamed", Command: []string{"a", "b"}, Variations: []map[string]string{{}, {"K": "v"}}, Condition: "c", ExportAs: "E", Dir: "/d"}
	}
	return &taskDefinition{Command: []string{"true"}}
}

func c15StageDef(id string) *stageDefinition {
	switch rt.Concrete(rt.Choice("stage."+id+".shape", 8)) {
	case 0:
		return nil
	case 1:
		return &stageDefinition{}
	case 2:
		return &stageDefinition{Task: "t1"}
	case 3:
		return &stageDefinition{Task: "t1", Name: "n", DependsOn: []string{"t1"}, Dir: "/x", Env: map[string]string{"A": "b"}, Variables: nil}
	case 4:
		return &stageDefinition{Pipeline: "p2", Dir: "/x", Condition: "c", AllowFailure: true}
	case 5:
		return &stageDefinition{Task: "t1", Pipeline: "p2", DependsOn: []string{}}
	case 6:
		return &stageDefinition{Name: "only-a-name", DependsOn: []string{"t1"}}
	}
	return &stageDefinition{Pipeline: "p1", Name: "self"}
}

// VerifC15Grammar: tasks t1 (sound) and t2 (any shape), contexts c1 (sound) and c2 (null / empty /
// sound), pipeline p1 with two stages of any shape, p2 (sound / empty / null list), watcher (null /
// unknown task / sound).
func VerifC15Grammar(t2shape int) {
	rt.Redirect("github.com/taskctl/taskctl/internal/watch.NewWatcher", c15NewWatcher)
	rt.Redirect("github.com/taskctl/taskctl/pkg/utils.ReadEnvFile", c15ReadEnvFile)
	c15EnvFileMissing = false
	def := &configDefinition{
		Tasks:     map[string]*taskDefinition{"t1": {Command: []string{"true"}}, "t2": c15TaskDef("t2", t2shape)},
		Contexts:  map[string]*contextDefinition{"c1": {Dir: "/ctx"}},
		Pipelines: map[string][]*stageDefinition{},
		Watchers:  map[string]*watcherDefinition{},
	}
	switch rt.Concrete(rt.Choice("context.c2.shape", 3)) {
	case 0:
		def.Contexts["c2"] = nil
	case 1:
		def.Contexts["c2"] = &contextDefinition{}
	}
	switch rt.Concrete(rt.Choice("pipeline.p2.shape", 3)) {
	case 0:
		def.Pipelines["p2"] = nil
	case 1:
		def.Pipelines["p2"] = []*stageDefinition{}
	default:
		def.Pipelines["p2"] = []*stageDefinition{{Task: "t1"}}
	}
	def.Pipelines["p1"] = []*stageDefinition{c15StageDef("p1.0"), c15StageDef("p1.1")}
	switch rt.Concrete(rt.Choice("watcher.shape", 4)) {
	case 0:
		def.Watchers["w"] = nil
	case 1:
		def.Watchers["w"] = &watcherDefinition{Task: "nosuch"}
	case 2:
		def.Watchers["w"] = &watcherDefinition{Task: "t2", Events: nil, Watch: nil, Exclude: []string{""}}
	default:
		def.Watchers["w"] = &watcherDefinition{Task: "t1", Watch: []string{"*.go"}}
	}
	cfg, err := buildFromDefinition(def, &loaderContext{Dir: "/proj"})
	rt.Assert(true, "C15.grammar-building-ended-without-a-crash")
	if err != nil {
		rt.Cover("C15.grammar-rejected")
		return
	}
	rt.Cover("C15.grammar-built")
	// what the CLI commands read from a loaded configuration (list / show / graph / validate walk these)
	for name, t := range cfg.Tasks {
		_ = name
		_ = t.Name + t.Description + t.Dir + t.Context
		_ = len(t.Commands) + len(t.GetVariations())
	}
	for _, g := range cfg.Pipelines {
		for n, st := range g.Nodes() {
			_ = n
			_ = st.Name
			_ = len(g.To(st.Name)) + len(g.From(st.Name))
			if st.Task != nil {
				_ = st.Task.Name
			}
		}
	}
	rt.Assert(true, "C15.walking-the-loaded-configuration-ended-without-a-crash")
}
