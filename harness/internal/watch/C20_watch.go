//go:build verif

package watch

import (
	"context"
	"errors"
	"os"
	"time"

	"github.com/fsnotify/fsnotify"

	rt "github.com/taskctl/taskctl/internal/verifrt"
	"github.com/taskctl/taskctl/pkg/executor"
	"github.com/taskctl/taskctl/pkg/runner"
	"github.com/taskctl/taskctl/pkg/task"
)

var c20Paths = []string{"p0", "p1", "p2"}
var c20Inc [][]bool // include pattern i matches path k
var c20Exc [][]bool // exclude pattern j matches path k
var c20D = []string{"0", "1", "2", "3", "4"}

func c20Index(list []string, s string) int {
	for i, x := range list {
		if x == s {
			return i
		}
	}
	return -1
}

func c20Glob(pattern string) ([]string, error) {
	i := c20Index([]string{"inc0", "inc1"}, pattern)
	var out []string
	for k, p := range c20Paths {
		if c20Inc[i][k] {
			out = append(out, p)
		}
	}
	return out, nil
}

func c20PathMatch(pattern, name string) (bool, error) {
	j := c20Index([]string{"exc0", "exc1"}, pattern)
	k := c20Index(c20Paths, name)
	return c20Exc[j][k], nil
}

func c20NewFsWatcher() (*fsnotify.Watcher, error) { return &fsnotify.Watcher{}, nil }

// VerifC20Paths: ni include patterns, ne exclude patterns, the match relation symbolic.
func VerifC20Paths(ni, ne int) {
	rt.Redirect("github.com/bmatcuk/doublestar.Glob", c20Glob)
	rt.Redirect("github.com/bmatcuk/doublestar.PathMatch", c20PathMatch)
	rt.Redirect("github.com/fsnotify/fsnotify.NewWatcher", c20NewFsWatcher)
	c20Inc, c20Exc = make([][]bool, ni), make([][]bool, ne)
	var inc, exc []string
	for i := 0; i < ni; i++ {
		inc = append(inc, "inc"+c20D[i])
		c20Inc[i] = make([]bool, len(c20Paths))
		for k := range c20Paths {
			c20Inc[i][k] = rt.Bool("include." + c20D[i] + ".matches." + c20Paths[k])
		}
	}
	for j := 0; j < ne; j++ {
		exc = append(exc, "exc"+c20D[j])
		c20Exc[j] = make([]bool, len(c20Paths))
		for k := range c20Paths {
			c20Exc[j][k] = rt.Bool("exclude." + c20D[j] + ".matches." + c20Paths[k])
		}
	}
	w, err := NewWatcher("w", nil, inc, exc, task.FromCommands("cmd"))
	rt.Assert(err == nil, "C20.watcher-built")
	if err != nil {
		return
	}
	for k, p := range c20Paths {
		want := false
		for i := 0; i < ni; i++ {
			want = rt.Or(want, c20Inc[i][k])
		}
		for j := 0; j < ne; j++ {
			want = rt.And(want, rt.Not(c20Exc[j][k]))
		}
		got := false
		for _, x := range w.paths {
			got = rt.Or(got, x == p)
		}
		rt.Assert(got == want, "C20.observed-paths-are-exactly-included-and-not-excluded")
	}
	rt.Cover("C20.paths-checked")
	if len(w.paths) > 0 {
		rt.Cover("C20.some-path-observed")
	}
}

// ---- events ----

type c20Exec struct {
	Cmd, EventName, EventPath string
}

var c20Execs []c20Exec

func c20Execute(e *executor.DefaultExecutor, ctx context.Context, job *executor.Job) ([]byte, error) {
	if rt.CtxCancelled(ctx) {
		return nil, ctx.Err()
	}
	x := c20Exec{Cmd: job.Command}
	x.EventName, _ = job.Env.Get("EventName").(string)
	x.EventPath, _ = job.Env.Get("EventPath").(string)
	c20Execs = append(c20Execs, x)
	return nil, nil
}
func c20NewExecutor(stdin interface{}, stdout, stderr interface{}) (*executor.DefaultExecutor, error) {
	return &executor.DefaultExecutor{}, nil
}
func c20Render(t string, m map[string]interface{}) (string, error) { return t, nil }

var c20Names = []string{eventCreate, eventWrite, eventRemove, eventRename, eventChmod}
var c20Ops = []fsnotify.Op{fsnotify.Create, fsnotify.Write, fsnotify.Remove, fsnotify.Rename, fsnotify.Chmod}

// VerifC20Events: the subscribed set is any subset of the five event types (none listed = all);
// nEvents events of symbolic type are handled one after the other.
func VerifC20Events(nEvents int) {
	rt.Redirect("github.com/fsnotify/fsnotify.NewWatcher", c20NewFsWatcher)
	rt.Redirect("(*github.com/taskctl/taskctl/pkg/executor.DefaultExecutor).Execute", c20Execute)
	rt.Redirect("github.com/taskctl/taskctl/pkg/executor.NewDefaultExecutor", c20NewExecutor)
	rt.Redirect("github.com/taskctl/taskctl/pkg/utils.RenderString", c20Render)
	var events []string
	sub := make([]bool, 5)
	any := false
	for i, n := range c20Names {
		sub[i] = rt.Bool("subscribed." + n)
		if sub[i] {
			events = append(events, n)
			any = true
		}
	}
	tk := task.FromCommands("watched-cmd")
	tk.Name = "wt"
	w, err := NewWatcher("w", events, nil, nil, tk)
	rt.Assert(err == nil, "C20.watcher-built")
	r, _ := runner.NewTaskRunner()
	w.r = r
	for n := 0; n < nEvents; n++ {
		c20Execs = nil
		ty := rt.Choice("event."+c20D[n]+".type", 5)
		ev := fsnotify.Event{Name: "some/file", Op: c20Ops[ty]}
		w.eventsWg.Add(1)
		w.handle(ev)
		rt.Cover("C20.handler-returned")
		want := rt.Or(rt.Not(any), sub[ty])
		rt.Observe("event-subscribed", want)
		if want {
			// was the runner left cancelled for good by the handler? (classification of the finding)
			probe := task.FromCommands("probe")
			if perr := r.Run(probe); perr != nil && errors.Is(perr, context.Canceled) {
				rt.Tag("the-handler's-Cancel-leaves-the-runner-cancelled-for-good")
			}
			ran := false
			for _, x := range c20Execs {
				if x.Cmd == "watched-cmd" {
					ran = true
					rt.Assert(rt.And(x.EventName == c20Names[ty], x.EventPath == "some/file"), "C20.EventName-and-EventPath-describe-the-event")
				}
			}
			rt.Assert(ran, "C20.subscribed-event-runs-the-task")
			rt.Cover("C20.subscribed-event")
		} else {
			rt.Assert(len(c20Execs) == 0, "C20.unsubscribed-event-runs-nothing")
			rt.Cover("C20.unsubscribed-event")
		}
	}
}

// ---- the polling loop of Watcher.Run, Close, and several events in a row (thread mode) ----

var c20Added []string
var c20Started []c20Exec

func c20FswAdd(w *fsnotify.Watcher, name string) error {
	c20Added = append(c20Added, name)
	return nil
}

// the real fsnotify closes both channels when the watcher is closed
func c20FswClose(w *fsnotify.Watcher) error {
	close(w.Events)
	close(w.Errors)
	return nil
}

func c20NewFsWatcherCh() (*fsnotify.Watcher, error) {
	return &fsnotify.Watcher{Events: make(chan fsnotify.Event, 4), Errors: make(chan error, 1)}, nil
}

// a command takes time: it starts, something else may happen, and it is interrupted when its
// context was cancelled meanwhile (a later event cancels what is still running)
func c20ExecuteSlow(e *executor.DefaultExecutor, ctx context.Context, job *executor.Job) ([]byte, error) {
	if rt.CtxCancelled(ctx) {
		return nil, ctx.Err()
	}
	x := c20Exec{Cmd: job.Command}
	x.EventName, _ = job.Env.Get("EventName").(string)
	x.EventPath, _ = job.Env.Get("EventPath").(string)
	c20Started = append(c20Started, x)
	rt.Yield() // a preemption point: with bound 0 the command runs through, with bound >= 1 another thread may run here
	if rt.CtxCancelled(ctx) {
		return nil, ctx.Err()
	}
	c20Execs = append(c20Execs, x)
	return nil, nil
}

func c20OpString(op fsnotify.Op) string { return "op" }

type c20Info struct{ dir bool }

func (i c20Info) Name() string       { return "x" }
func (i c20Info) Size() int64        { return 0 }
func (i c20Info) Mode() os.FileMode  { return 0 }
func (i c20Info) ModTime() time.Time { return time.Time{} }
func (i c20Info) IsDir() bool        { return i.dir }
func (i c20Info) Sys() interface{}   { return nil }

func c20Stat(name string) (os.FileInfo, error) {
	switch name {
	case "d", "d/sub":
		return c20Info{dir: true}, nil
	case "d/sub/f.txt", "g.txt":
		return c20Info{}, nil
	}
	return nil, rt.ErrorNew("no such file or directory")
}

var c20EvPaths = []string{"f0", "f1", "f2", "f3"}

// VerifC20Loop: the real Watcher.Run (registration, first run of the task, polling loop, handler
// goroutines) with nEvents events of symbolic type delivered through the fsnotify channel, then Close.
// mask: the subscribed set as bits over create/write/remove/rename/chmod; 99 = symbolic (all 32 subsets).
func VerifC20Loop(nEvents, preempt, mask int) {
	rt.ThreadMode(preempt)
	rt.Unwind(400)
	rt.Redirect("github.com/fsnotify/fsnotify.NewWatcher", c20NewFsWatcherCh)
	rt.Redirect("(*github.com/fsnotify/fsnotify.Watcher).Add", c20FswAdd)
	rt.Redirect("(*github.com/fsnotify/fsnotify.Watcher).Close", c20FswClose)
	rt.Redirect("github.com/bmatcuk/doublestar.Glob", c20Glob)
	rt.Redirect("(github.com/fsnotify/fsnotify.Op).String", c20OpString) // only feeds a debug message
	rt.Redirect("(*github.com/taskctl/taskctl/pkg/executor.DefaultExecutor).Execute", c20ExecuteSlow)
	rt.Redirect("github.com/taskctl/taskctl/pkg/executor.NewDefaultExecutor", c20NewExecutor)
	rt.Redirect("github.com/taskctl/taskctl/pkg/utils.RenderString", c20Render)
	// the selected paths: a directory, a file two levels below it (inotify is not recursive: it needs
	// its own watch) and a plain file; code that consults the file system gets this tree
	c20Paths = []string{"d", "d/sub/f.txt", "g.txt"}
	c20Inc = [][]bool{{true, true, true}}
	rt.Redirect("os.Stat", c20Stat)
	rt.Redirect("os.Lstat", c20Stat)
	c20Added, c20Started, c20Execs = nil, nil, nil
	var events []string
	sub := make([]bool, 5)
	any := false
	for i, n := range c20Names {
		if mask == 99 {
			sub[i] = rt.Bool("subscribed." + n)
		} else {
			sub[i] = mask&(1<<uint(i)) != 0
			rt.Observe("subscribed."+n, sub[i])
		}
		if sub[i] {
			events = append(events, n)
			any = true
		}
	}
	tk := task.FromCommands("watched-cmd")
	tk.Name = "wt"
	w, err := NewWatcher("w", events, []string{"inc0"}, nil, tk)
	rt.Assert(err == nil, "C20.watcher-built")
	r, _ := runner.NewTaskRunner()
	returned := false
	rt.Spawn("watcher-run", func() {
		rerr := w.Run(r)
		rt.Assert(rerr == nil, "C20.loop.Run-returns-no-error")
		returned = true
	})
	time.Sleep(time.Second) // the watcher is up: paths registered, first run started, loop polling
	before := rt.Digest(w)
	tys := make([]int, nEvents)
	for n := 0; n < nEvents; n++ {
		tys[n] = rt.Choice("event."+c20D[n]+".type", 5)
		w.fsw.Events <- fsnotify.Event{Name: c20EvPaths[n], Op: c20Ops[tys[n]]}
	}
	for len(w.fsw.Events) > 0 {
		time.Sleep(time.Second)
	}
	time.Sleep(time.Second) // the last handler gets going
	// "keeps serving later events for as long as it runs", inductively: once the events are served the
	// watcher is in the state it was in before them (its fields, and the fill level of the channels
	// and maps they refer to), so the next event meets what the first one met
	for tries := 0; tries < 6 && rt.Digest(w) != before; tries++ {
		time.Sleep(time.Second)
	}
	rt.Assert(rt.Digest(w) == before, "C20.loop.served-events-leave-the-watcher-as-it-was")
	w.Close()
	rt.WaitThreads()
	rt.Assert(returned, "C20.loop.Run-returns-after-Close")
	for _, sel := range c20Paths {
		found := false
		for _, a := range c20Added {
			found = found || a == sel
		}
		rt.Assert(found, "C20.loop.every-selected-path-is-registered")
	}
	lastSub := -1
	for n := 0; n < nEvents; n++ {
		if rt.Or(rt.Not(any), sub[tys[n]]) {
			lastSub = n
		}
	}
	for n := 0; n < nEvents; n++ {
		want := rt.Or(rt.Not(any), sub[tys[n]])
		started, finished := false, false
		for _, x := range c20Started {
			if x.Cmd == "watched-cmd" && x.EventPath == c20EvPaths[n] {
				started = true
				rt.Assert(x.EventName == c20Names[tys[n]], "C20.EventName-and-EventPath-describe-the-event")
			}
		}
		for _, x := range c20Execs {
			if x.Cmd == "watched-cmd" && x.EventPath == c20EvPaths[n] {
				finished = true
			}
		}
		if want {
			if preempt == 0 {
				rt.Assert(started, "C20.loop.every-subscribed-event-runs-the-task (also the later ones)")
			} else {
				// under preemption a later event's handler may cancel this event's run before its first
				// command: superseded, which is what cancelling on a new event means
				rt.Assert(rt.Or(started, n < lastSub), "C20.loop.every-subscribed-event-runs-the-task-or-is-superseded-by-a-later-one")
			}
			if n == lastSub {
				rt.Assert(finished, "C20.loop.the-last-subscribed-event's-run-completes")
			}
			rt.Cover("C20.loop.subscribed-event")
		} else {
			rt.Assert(!started, "C20.unsubscribed-event-runs-nothing")
		}
	}
	rt.Cover("C20.loop-checked")
}
