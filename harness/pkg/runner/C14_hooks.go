//go:build verif

package runner

import (
	"context"

	rt "github.com/taskctl/taskctl/internal/verifrt"
	"github.com/taskctl/taskctl/pkg/executor"
	"github.com/taskctl/taskctl/pkg/task"
	"github.com/taskctl/taskctl/pkg/variables"
	"mvdan.cc/sh/v3/interp"
)

// c14Expect walks the recorded executions of one task run and returns the index after it.
// kinds: "up0" context up, "cb0"/"ca0" context before/after, "cond", "b0", "c0", "a0" task-level.
type c14Walk struct {
	i      int
	ok     bool
	upDone bool
	upFail bool
	// second context (B)
	upDoneB bool
	upFailB bool
}

func (w *c14Walk) next(cmd string, label string) vCall {
	var c vCall
	if w.i < len(vCalls) {
		c = vCalls[w.i]
		rt.Assert(c.Cmd == cmd, label)
		if c.Cmd != cmd {
			w.ok = false
		}
	} else {
		rt.Assert(false, label)
		w.ok = false
	}
	w.i++
	return c
}

// one task run: returns whether Run must report an error
func (w *c14Walk) run(hasCond, hasBefore, hasAfter bool, allow bool, useB bool) (mustFail, skipped bool) {
	cb, ca := "cb0", "ca0"
	if useB {
		cb, ca = "cbB", "caB"
		if !w.upDoneB {
			w.upDoneB = true
			if w.next("upB", "C14.up-runs-first-and-once").Failed {
				w.upFailB = true
			}
		}
		if w.upFailB {
			return true, false
		}
	} else if !w.upDone {
		w.upDone = true
		// every up command runs (once); the context failed to start if ANY of them failed
		if w.next("up0", "C14.up-runs-first-and-once").Failed {
			w.upFail = true
		}
		if w.next("up1", "C14.up-runs-first-and-once").Failed {
			w.upFail = true
		}
	}
	if !useB && w.upFail {
		return true, false // no hook or command of a task whose context failed to start
	}
	if w.next(cb, "C14.context-before-once-before-the-task").Failed {
		return true, false
	}
	failed := false
	if hasCond {
		c := w.next("cond", "C14.task-commands-follow-context-before")
		if c.Failed {
			if c.IsStatus {
				skipped = true
			} else {
				failed = true
			}
		}
	}
	if !skipped && !failed && hasBefore {
		if w.next("b0", "C14.task-commands-follow-context-before").Failed {
			failed = true
		}
	}
	if !skipped && !failed {
		c := w.next("c0", "C14.task-commands-follow-context-before")
		if c.Failed && !(c.IsStatus && allow) {
			failed = true
		}
		if !failed && hasAfter {
			w.next("a0", "C14.task-commands-follow-context-before")
		}
	}
	w.next(ca, "C14.context-after-once-after-the-task-also-when-it-fails")
	return failed, skipped
}

// VerifC14Hooks: nt (1..2) sequential runs of tasks sharing one context with up/down/before/after
// commands; shape bits: 1 condition, 2 before hook, 4 after hook.
// twoCtx = 1: the second task uses a second context (B) with its own up / down / before / after.
func VerifC14Hooks(nt, shape, twoCtx int) {
	vInstallStubs()
	vAllowOther = false
	hasCond, hasBefore, hasAfter := shape&1 != 0, shape&2 != 0, shape&4 != 0
	ctx := NewExecutionContext(nil, "", variables.NewVariables(), []string{"up0", "up1"}, []string{"down0"}, []string{"cb0"}, []string{"ca0"})
	other := NewExecutionContext(nil, "", variables.NewVariables(), []string{"up-other"}, []string{"down-other"}, nil, nil)
	ctxB := NewExecutionContext(nil, "", variables.NewVariables(), []string{"upB"}, []string{"downB"}, []string{"cbB"}, []string{"caB"})
	r, err := NewTaskRunner(WithContexts(map[string]*ExecutionContext{"ctx": ctx, "unused": other, "ctxB": ctxB}))
	rt.Assert(err == nil, "C14.runner-created")
	errs := make([]error, nt)
	tasks := make([]*task.Task, nt)
	for k := 0; k < nt; k++ {
		t := task.FromCommands("c0")
		t.Name = "t" + vDigits[k]
		t.Context = "ctx"
		if twoCtx == 1 && k == 1 {
			t.Context = "ctxB"
		}
		if hasCond {
			t.Condition = "cond"
		}
		if hasBefore {
			t.Before = []string{"b0"}
		}
		if hasAfter {
			t.After = []string{"a0"}
		}
		t.AllowFailure = rt.Bool("allow_failure." + vDigits[k])
		tasks[k] = t
		errs[k] = r.Run(t)
	}
	nRun := len(vCalls)
	r.Finish()
	// ---- oracle ----
	w := &c14Walk{ok: true}
	for k := 0; k < nt; k++ {
		mustFail, skipped := w.run(hasCond, hasBefore, hasAfter, tasks[k].AllowFailure, twoCtx == 1 && k == 1)
		if !w.ok {
			return
		}
		rt.Assert((errs[k] != nil) == mustFail, "C14.run-error-iff-failed-or-context-did-not-start")
		rt.Assert(tasks[k].Skipped == skipped, "C14.skipped-flag")
	}
	rt.Assert(w.i == nRun, "C14.no-other-command-runs")
	// Finish: down exactly once for the context that was used, none for the unused one
	wantDowns := 1
	if twoCtx == 1 && nt == 2 {
		wantDowns = 2
	}
	rt.Assert(len(vCalls) == nRun+wantDowns, "C14.down-runs-exactly-once-for-used-contexts-only")
	if len(vCalls) == nRun+wantDowns {
		n0, nB := 0, 0
		for _, c := range vCalls[nRun:] {
			if c.Cmd == "down0" {
				n0++
			}
			if c.Cmd == "downB" {
				nB++
			}
		}
		rt.Assert(n0 == 1, "C14.down-runs-exactly-once-for-used-contexts-only")
		rt.Assert(nB == wantDowns-1, "C14.down-runs-exactly-once-for-used-contexts-only")
	}
	rt.Cover("C14.hooks-checked")
	if w.upFail {
		rt.Cover("C14.up-failed")
	}
	if nt == 2 {
		rt.Cover("C14.two-tasks-share-a-context")
	}
}

// ---- up under concurrency (thread mode) ----

var c14UpDone bool
var c14UpStarted int
var c14UpFails bool

func c14ExecuteUp(e *executor.DefaultExecutor, ctx context.Context, job *executor.Job) ([]byte, error) {
	if job.Command == "up0" {
		c14UpStarted++
		rt.Yield() // up takes time
		c14UpDone = true
		if c14UpFails {
			return nil, interp.NewExitStatus(1)
		}
		return nil, nil
	}
	rt.Assert(c14UpDone, "C14.up-completes-before-any-hook-or-command-of-the-context")
	rt.Assert(!c14UpFails, "C14.no-command-when-up-failed")
	rt.Yield()
	return nil, nil
}

func VerifC14Up(preempt int) {
	rt.ThreadMode(preempt)
	rt.Redirect("(*github.com/taskctl/taskctl/pkg/executor.DefaultExecutor).Execute", c14ExecuteUp)
	rt.Redirect("github.com/taskctl/taskctl/pkg/executor.NewDefaultExecutor", vNewExecutor)
	rt.Redirect("github.com/taskctl/taskctl/pkg/utils.RenderString", vRender)
	c14UpDone, c14UpStarted = false, 0
	c14UpFails = rt.Bool("up-fails")
	ctx := NewExecutionContext(nil, "", variables.NewVariables(), []string{"up0"}, nil, []string{"cb0"}, nil)
	r, _ := NewTaskRunner(WithContexts(map[string]*ExecutionContext{"ctx": ctx}))
	errs := make([]error, 2)
	for k := 0; k < 2; k++ {
		k := k
		t := task.FromCommands("c0")
		t.Name = "t" + vDigits[k]
		t.Context = "ctx"
		rt.Spawn("run-"+vDigits[k], func() { errs[k] = r.Run(t) })
	}
	rt.WaitThreads()
	rt.Assert(c14UpStarted == 1, "C14.up-runs-exactly-once-for-simultaneous-tasks")
	if c14UpFails {
		rt.Assert(rt.And(errs[0] != nil, errs[1] != nil), "C14.every-task-of-a-context-that-failed-to-start-reports-an-error")
		rt.Cover("C14.concurrent-up-failed")
	}
	rt.Cover("C14.concurrent-up-checked")
}
