//go:build verif

package runner

import (
	"context"

	rt "github.com/taskctl/taskctl/internal/verifrt"
	"github.com/taskctl/taskctl/pkg/executor"
	"github.com/taskctl/taskctl/pkg/task"
	"mvdan.cc/sh/v3/interp"
)

type c11Call struct {
	Cmd      string
	PrevOut  string // .Output as seen by this command
	Stdout   string // what it printed
	Failed   bool
	EnvValue string
	EnvHas   bool
}

var c11Calls []c11Call
var c11Key string
var c11MaxOut = 2

type c11Sink struct{ got string }

func (s *c11Sink) Write(p []byte) (int, error) { s.got += string(p); return len(p), nil }

// c11Execute: the command prints 0..c11MaxOut symbolic bytes to its stdout, which is also the output Execute returns.
func c11Execute(e *executor.DefaultExecutor, ctx context.Context, job *executor.Job) ([]byte, error) {
	k := len(c11Calls)
	c := c11Call{Cmd: job.Command}
	c.PrevOut, _ = job.Vars.Get("Output").(string)
	v := job.Env.Get(c11Key)
	c.EnvValue, _ = v.(string)
	c.EnvHas = job.Env.Has(c11Key)
	n := rt.Concrete(rt.Choice("outlen."+vDigits[k], c11MaxOut+1))
	out := make([]byte, n)
	for i := range out {
		out[i] = rt.Uint8("out." + vDigits[k] + "." + vDigits[i])
		rt.Assume(out[i] != 0) // a NUL byte cannot be carried by an environment variable or a command line
	}
	c.Stdout = string(out)
	if job.Stdout != nil {
		job.Stdout.Write(out)
	}
	var err error
	if rt.Bool("fails." + vDigits[k]) {
		c.Failed = true
		err = interp.NewExitStatus(2)
	}
	c11Calls = append(c11Calls, c)
	return out, err
}

// c11EnvName computes <NAME>_OUTPUT (upper-cased, everything outside A-Za-z0-9_ replaced by _) without branching.
func c11EnvName(name []byte) string {
	out := make([]byte, len(name))
	for i, b := range name {
		c := int(b)
		c = rt.Ite(rt.And(c >= 'a', c <= 'z'), c-32, c)
		keep := rt.Or(rt.And(c >= 'A', c <= 'Z'), rt.And(c >= '0', c <= '9'), c == '_')
		out[i] = byte(rt.Ite(keep, c, '_'))
	}
	return string(out) + "_OUTPUT"
}

// VerifC11: a producer with 2 commands (nv variations) and a consumer run by the same runner.
// nameLen symbolic printable-ASCII characters in the producer's name; exportAs 0/1.
func VerifC11(nv, nameLen, exportAs, maxOut int) {
	c11MaxOut = maxOut
	rt.Redirect("(*github.com/taskctl/taskctl/pkg/executor.DefaultExecutor).Execute", c11Execute)
	rt.Redirect("github.com/taskctl/taskctl/pkg/executor.NewDefaultExecutor", vNewExecutor)
	rt.Redirect("github.com/taskctl/taskctl/pkg/utils.RenderString", vRender)
	c11Calls = nil
	name := make([]byte, nameLen)
	for i := range name {
		b := rt.Uint8("name." + vDigits[i])
		rt.Assume(rt.And(b >= 0x20, b <= 0x7e))
		name[i] = b
	}
	p := task.FromCommands("p0", "p1")
	p.Name = string(name)
	if nv > 0 {
		p.Variations = make([]map[string]string, nv)
		for i := range p.Variations {
			p.Variations[i] = map[string]string{"V": vDigits[i]}
		}
	}
	p.AllowFailure = rt.Bool("allow_failure")
	c11Key = c11EnvName(name)
	if exportAs == 1 {
		p.ExportAs = "EXPORTED"
		c11Key = "EXPORTED"
	}
	r, err := NewTaskRunner()
	rt.Assert(err == nil, "C11.runner-created")
	sink := &c11Sink{}
	r.Stdout, r.Stderr = sink, sink
	perr := r.Run(p)
	nProd := len(c11Calls)

	// what the producer printed, in execution order
	all := ""
	failedHard := false
	for k := 0; k < nProd; k++ {
		c := c11Calls[k]
		all += c.Stdout
		if k == 0 {
			rt.Assert(c.PrevOut == "", "C11.first-command-sees-empty-Output")
		} else {
			rt.Assert(c.PrevOut == c11Calls[k-1].Stdout, "C11.command-sees-previous-command-output-as-.Output")
		}
		rt.Assert(!c.EnvHas, "C11.output-variable-stored-only-after-the-last-command")
		if c.Failed && !p.AllowFailure {
			failedHard = true
		}
	}
	rt.Assert((perr != nil) == failedHard, "C11.producer-error-iff-failed-hard")
	rt.Assert(p.Output() == all, "C11.captured-output-is-exactly-what-the-commands-printed")
	rt.Assert(sink.got == all, "C11.raw-output-forwards-the-same-bytes")

	cons := task.FromCommands("consume")
	cons.Name = "consumer"
	rt.Assert(r.Run(cons) == nil || true, "C11.consumer-ran")
	rt.Assert(len(c11Calls) == nProd+1, "C11.consumer-command-executed")
	if len(c11Calls) != nProd+1 {
		return
	}
	cc := c11Calls[nProd]
	if failedHard {
		rt.Cover("C11.producer-failed")
		rt.Assert(!cc.EnvHas, "C11.nothing-handed-on-when-the-producer-failed")
	} else {
		rt.Cover("C11.producer-succeeded")
		rt.Assert(cc.EnvHas, "C11.dependant-sees-the-output-variable")
		rt.Assert(cc.EnvValue == all, "C11.dependant-sees-exactly-the-captured-output")
	}
}
