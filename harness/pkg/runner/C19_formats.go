//go:build verif

package runner

import (
	"io"
	"time"

	"github.com/briandowns/spinner"

	rt "github.com/taskctl/taskctl/internal/verifrt"
	"github.com/taskctl/taskctl/pkg/task"
)

// C19 (b): whichever output format is selected, a task's recorded result is the same and no
// task outcome (success, failure, skipped, failing before hook) makes the output layer crash.

var c19Formats = []string{"raw", "prefixed", "cockpit"}

type c19Out struct{ n int }

func (o *c19Out) Write(p []byte) (int, error) { o.n += len(p); return len(p), nil }

func c19SpinnerNew(cs []string, d time.Duration, options ...spinner.Option) *spinner.Spinner {
	return &spinner.Spinner{}
}
func c19SpinnerNop(s *spinner.Spinner) {}
func c19WithColor(c string) spinner.Option { return nil }

func VerifC19Formats(format, shape int) {
	vInstallStubs()
	vAllowOther = false
	vOutLen, vErrLen = 1, 1
	defer func() { vErrLen = 0 }()
	rt.Redirect("github.com/briandowns/spinner.New", c19SpinnerNew)
	rt.Redirect("github.com/briandowns/spinner.WithColor", c19WithColor)
	rt.Redirect("(*github.com/briandowns/spinner.Spinner).Start", c19SpinnerNop)
	rt.Redirect("(*github.com/briandowns/spinner.Spinner).Stop", c19SpinnerNop)
	rt.Redirect("(*github.com/briandowns/spinner.Spinner).Restart", c19SpinnerNop)
	hasCond, hasBefore := shape&1 != 0, shape&2 != 0
	t := task.FromCommands("c0")
	t.Name = "tk"
	if hasCond {
		t.Condition = "cond"
	}
	if hasBefore {
		t.Before = []string{"b0"}
	}
	t.AllowFailure = rt.Bool("allow_failure")
	initial := t.ExitCode
	r, err := NewTaskRunner()
	rt.Assert(err == nil, "C19.runner-created")
	out := &c19Out{}
	r.Stdout, r.Stderr = out, out
	var _ io.Writer = out
	r.OutputFormat = c19Formats[format]
	runErr := r.Run(t)
	rt.Cover("C19.format-run-completed-without-crash")

	// reference result (independent of the format)
	i := 0
	skipped, failed, cmdFailed := false, false, false
	var st uint8
	next := func() vCall {
		var c vCall
		if i < len(vCalls) {
			c = vCalls[i]
		}
		i++
		return c
	}
	if hasCond {
		if next().Failed {
			skipped = true
		}
	}
	if !skipped && hasBefore {
		if next().Failed {
			failed = true
		}
	}
	if !skipped && !failed {
		c := next()
		if c.Failed && !t.AllowFailure {
			failed, cmdFailed, st = true, true, c.Status
		}
		// what the task's command printed is part of its recorded result: stdout and stderr, kept apart
		rt.Assert(t.Log.Stdout.String() == c.Out, "C19.recorded-stdout-independent-of-format")
		rt.Assert(t.Log.Stderr.String() == c.Err, "C19.recorded-stderr-independent-of-format")
		rt.Assert(t.Output() == c.Out, "C19.recorded-output-independent-of-format")
	}
	rt.Assert(len(vCalls) == i, "C19.same-commands-run-under-every-format")
	rt.Assert((runErr != nil) == failed, "C19.result-error-independent-of-format")
	rt.Assert(t.Skipped == skipped, "C19.result-skipped-independent-of-format")
	if skipped {
		rt.Cover("C19.skipped-task-under-format")
		rt.Assert(rt.And(!t.Errored, t.ExitCode == initial), "C19.result-fields-independent-of-format")
	} else if cmdFailed {
		rt.Assert(rt.And(t.Errored, t.ExitCode == int16(st)), "C19.result-fields-independent-of-format")
	} else if !failed {
		rt.Assert(rt.And(!t.Errored, t.ExitCode == 0), "C19.result-fields-independent-of-format")
	} else {
		rt.Cover("C19.before-hook-failed-under-format")
	}
}
