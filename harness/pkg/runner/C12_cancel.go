//go:build verif

package runner

import (
	"context"

	rt "github.com/taskctl/taskctl/internal/verifrt"
	"github.com/taskctl/taskctl/pkg/executor"
	"github.com/taskctl/taskctl/pkg/task"
	"github.com/taskctl/taskctl/pkg/variables"
	"mvdan.cc/sh/v3/interp"
)

// Thread-mode harness for cancellation: k concurrent TaskRunner.Run calls and
// one thread calling Cancel (optionally twice), every interleaving at visible
// operations (RWMutex, channel close/receive, context cancel, command
// start/finish). The executor stub models a command as: start, take time
// (yield), then fail with the context's error if the runner's context was
// cancelled meanwhile, else finish with a symbolic outcome.

var c12CancelReturned bool
var c12Started int
var c12Interrupted []bool
var c12LateStart []bool
var c12Err []error
var c12Finished []bool
var c12Owner map[string]int

func c12Execute(e *executor.DefaultExecutor, ctx context.Context, job *executor.Job) ([]byte, error) {
	i := c12Owner[job.Command]
	if rt.CtxCancelled(ctx) {
		// the interpreter checks its context before running anything: no command starts
		c12Interrupted[i] = true
		return nil, ctx.Err()
	}
	rt.Assert(!c12CancelReturned, "C12.no-command-starts-after-cancellation-completed")
	c12Started++
	k := rt.ThreadID()
	rt.Yield() // the command is running
	if rt.CtxCancelled(ctx) {
		c12Interrupted[i] = true
		return nil, ctx.Err()
	}
	if rt.Bool("command-fails." + vDigits[i] + "." + vDigits[k]) {
		return nil, interp.NewExitStatus(3)
	}
	return nil, nil
}

// VerifC12Cancel: k runs (task i has 1 + i%2 commands and, for i == 1, a before hook), cancel called `times` times.
// cthreads: number of threads calling Cancel concurrently (each `times` times); wind = 1 gives the
// tasks an execution context whose after command runs while the task winds down.
func VerifC12Cancel(k, times, preempt, cthreads, wind int) {
	if cthreads == 0 {
		cthreads = 1
	}
	if preempt >= 9 {
		preempt = -1 // unbounded
	}
	rt.ThreadMode(preempt)
	rt.Redirect("(*github.com/taskctl/taskctl/pkg/executor.DefaultExecutor).Execute", c12Execute)
	rt.Redirect("github.com/taskctl/taskctl/pkg/executor.NewDefaultExecutor", vNewExecutor)
	rt.Redirect("github.com/taskctl/taskctl/pkg/utils.RenderString", vRender)
	ectx := NewExecutionContext(nil, "", variables.NewVariables(), nil, nil, nil, []string{"ctx-after"})
	r, err := NewTaskRunner(WithContexts(map[string]*ExecutionContext{"ctx": ectx}))
	rt.Assert(err == nil, "C12.runner-created")
	c12CancelReturned = false
	c12Started = 0
	c12Interrupted = make([]bool, k)
	c12LateStart = make([]bool, k)
	c12Err = make([]error, k)
	c12Finished = make([]bool, k)
	c12Owner = map[string]int{}
	tasks := make([]*task.Task, k)
	for i := 0; i < k; i++ {
		cmds := []string{"cmd-" + vDigits[i] + "-0"}
		if i%2 == 1 {
			cmds = append(cmds, "cmd-"+vDigits[i]+"-1")
		}
		t := task.FromCommands(cmds...)
		t.Name = "t" + vDigits[i]
		for _, c := range cmds {
			c12Owner[c] = i
		}
		if i == 1 {
			t.Before = []string{"before-1"}
			c12Owner["before-1"] = i
		}
		if wind == 1 {
			t.Context = "ctx"
		}
		if i < 2 {
			// a task that tolerates failing commands is still interrupted by a cancellation
			t.AllowFailure = rt.Bool("allow_failure." + vDigits[i])
		}
		tasks[i] = t
	}
	for i := 0; i < k; i++ {
		i := i
		rt.Spawn("run-"+vDigits[i], func() {
			c12LateStart[i] = c12CancelReturned
			c12Err[i] = r.Run(tasks[i])
			c12Finished[i] = true
		})
	}
	for c := 0; c < cthreads; c++ {
		rt.Spawn("cancel-"+vDigits[c], func() {
			for n := 0; n < times; n++ {
				r.Cancel()
				c12CancelReturned = true
			}
		})
	}
	rt.WaitThreads()
	rt.Cover("C12.all-threads-returned")
	for i := 0; i < k; i++ {
		rt.Assert(c12Finished[i], "C12.every-run-returns")
		if c12Interrupted[i] {
			rt.Cover("C12.a-command-was-interrupted")
			rt.Assert(c12Err[i] != nil, "C12.interrupted-task-reports-an-error")
		}
		if c12LateStart[i] {
			rt.Cover("C12.a-run-started-after-cancellation")
			rt.Assert(c12Err[i] != nil, "C12.task-started-after-cancellation-reports-an-error")
		}
	}
}
