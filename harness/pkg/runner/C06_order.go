//go:build verif

package runner

import (
	rt "github.com/taskctl/taskctl/internal/verifrt"
	"github.com/taskctl/taskctl/pkg/task"
)

var c06Cmds = []string{"c0", "c1", "c2"}
var c06Before = []string{"b0", "b1"}
var c06After = []string{"a0", "a1"}

// VerifC06Task runs one task of the given shape through the real TaskRunner
// with a symbolic outcome for every command, and compares the sequence of
// executed commands and the recorded result with the reference semantics.
// shape: nc commands, nv variations (0 = none declared), nb before, na after, cond 0/1.
func VerifC06Task(nc, nv, nb, na, cond int) {
	vInstallStubs()
	vAllowOther = nv <= 1 // non-status errors are explored for tasks without repeated commands (replayable natively)
	t := task.FromCommands(c06Cmds[:nc]...)
	t.Name = "t"
	if nv > 0 {
		t.Variations = make([]map[string]string, nv)
		for i := range t.Variations {
			// the values are symbolic over a two-element domain: variations may repeat one another
			t.Variations[i] = map[string]string{"V": rt.OneOf("variation."+vDigits[i]+".V", "x", "y")}
		}
	}
	t.Before = c06Before[:nb]
	t.After = c06After[:na]
	if cond == 1 {
		t.Condition = "cond"
	}
	t.AllowFailure = rt.Bool("allow_failure")
	initialExit := t.ExitCode

	r, err := NewTaskRunner()
	rt.Assert(err == nil, "C06.runner-created")
	runErr := r.Run(t)

	// ---- reference ----
	var exp []string
	i := 0
	skipped, failed, cmdFailed := false, false, false
	var failStatus uint8
	failIsStatus := false
	next := func(cmd string) vCall {
		exp = append(exp, cmd)
		var c vCall
		if i < len(vCalls) {
			c = vCalls[i]
		}
		i++
		return c
	}
	if cond == 1 {
		c := next("cond")
		if c.Failed {
			if c.IsStatus {
				skipped = true
			} else {
				failed = true
			}
		}
	}
	if !skipped && !failed {
		for _, b := range c06Before[:nb] {
			if next(b).Failed {
				failed = true
				break
			}
		}
	}
	ranCommands := false
	if !skipped && !failed {
		ranCommands = true
		vars := nv
		if vars == 0 {
			vars = 1
		}
	loop:
		for v := 0; v < vars; v++ {
			for _, cm := range c06Cmds[:nc] {
				c := next(cm)
				if c.Failed && !(c.IsStatus && t.AllowFailure) {
					failed, cmdFailed = true, true
					failIsStatus, failStatus = c.IsStatus, c.Status
					break loop
				}
			}
		}
	}
	if ranCommands && !failed {
		for _, a := range c06After[:na] {
			next(a) // failures of after-commands are ignored
		}
	}

	// ---- C06: order, one at a time, stop at first failure ----
	rt.Assert(len(vCalls) == len(exp), "C06.number-of-commands-run")
	if len(vCalls) == len(exp) {
		for k := range exp {
			rt.Assert(vCalls[k].Cmd == exp[k], "C06.command-order")
		}
	}
	rt.Assert(t.Skipped == skipped, "C06.skipped-flag")

	// ---- C07 (task level): faithful status ----
	rt.Assert((runErr != nil) == failed, "C07.error-iff-failed")
	if skipped {
		rt.Cover("C06.skipped")
		rt.Assert(rt.And(!t.Errored, t.ExitCode == initialExit), "C07.skipped-records-nothing")
	} else if cmdFailed {
		rt.Cover("C06.command-failed")
		rt.Assert(rt.And(t.Errored, t.Error != nil), "C07.failed-marked-errored")
		if failIsStatus {
			rt.Assert(t.ExitCode == int16(failStatus), "C07.exit-code-recorded")
		}
	} else if !failed {
		rt.Cover("C06.succeeded")
		rt.Assert(rt.And(!t.Errored, t.ExitCode == 0), "C07.success-records-zero")
	} else {
		rt.Cover("C06.before-failed")
	}
	if t.AllowFailure && !failed && !skipped {
		for k := range vCalls {
			if vCalls[k].Failed {
				rt.Cover("C06.allowed-failure-continued")
			}
		}
	}
}
