//go:build verif

package runner

// Shared executor stub for the runner-level harnesses: every call to
// (*DefaultExecutor).Execute is recorded and answered with a symbolic outcome.

import (
	"context"

	rt "github.com/taskctl/taskctl/internal/verifrt"
	"github.com/taskctl/taskctl/pkg/executor"
	"mvdan.cc/sh/v3/interp"
)

var vDigits = []string{"0", "1", "2", "3", "4", "5", "6", "7", "8", "9", "10", "11", "12", "13", "14", "15", "16", "17", "18", "19", "20", "21", "22", "23", "24"}

type vCall struct {
	Cmd       string
	Job       *executor.Job
	Failed    bool  // any error
	IsStatus  bool  // error is an exit status
	Status    uint8 // the status (symbolic)
	Ctx       context.Context
	Cancelled bool
	Out, Err  string // what the command printed on stdout / stderr
}

var vCalls []vCall
var vAllowOther = true // also explore non-status errors
var vStdout string     // what a successful command "prints" (per call, symbolic when vOutLen > 0)
var vOutLen = 0
var vErrLen = 0 // bytes a command prints on stderr
var vInExecute = 0

func vExecute(e *executor.DefaultExecutor, ctx context.Context, job *executor.Job) ([]byte, error) {
	k := len(vCalls)
	rt.Assert(vInExecute == 0, "execute-not-reentered")
	vInExecute++
	c := vCall{Cmd: job.Command, Job: job, Ctx: ctx}
	var out []byte
	if vOutLen > 0 && job.Stdout != nil {
		// the command prints vOutLen arbitrary bytes (no ANSI introducer: outside the prefixed decorator's model)
		out = make([]byte, vOutLen)
		for i := range out {
			b := rt.Uint8("stdout." + vDigits[k] + "." + vDigits[i])
			rt.Assume(rt.And(b != 0x1b, b != 0xc2))
			out[i] = b
		}
		job.Stdout.Write(out)
		c.Out = string(out)
	}
	if vErrLen > 0 && job.Stderr != nil {
		eb := make([]byte, vErrLen)
		for i := range eb {
			b := rt.Uint8("stderr." + vDigits[k] + "." + vDigits[i])
			rt.Assume(rt.And(b != 0x1b, b != 0xc2))
			eb[i] = b
		}
		job.Stderr.Write(eb)
		c.Err = string(eb)
	}
	nk := 2
	if vAllowOther {
		nk = 3
	}
	kind := rt.Choice("outcome."+vDigits[k], nk)
	var err error
	if kind == 1 {
		s := rt.Uint8("status." + vDigits[k])
		rt.Assume(s != 0)
		c.Failed, c.IsStatus, c.Status = true, true, s
		err = interp.NewExitStatus(s)
	} else if kind == 2 {
		c.Failed = true
		err = rt.ErrorNew("not an exit status")
	}
	vCalls = append(vCalls, c)
	vInExecute--
	return out, err
}

func vNewExecutor(stdin interface{}, stdout, stderr interface{}) (*executor.DefaultExecutor, error) {
	return &executor.DefaultExecutor{}, nil
}

func vRender(tmpl string, vars map[string]interface{}) (string, error) { return tmpl, nil }

func vInstallStubs() {
	vCalls = nil
	rt.Redirect("(*github.com/taskctl/taskctl/pkg/executor.DefaultExecutor).Execute", vExecute)
	rt.Redirect("github.com/taskctl/taskctl/pkg/executor.NewDefaultExecutor", vNewExecutor)
	rt.Redirect("github.com/taskctl/taskctl/pkg/utils.RenderString", vRender)
}
