//go:build verif

package scheduler

import (
	rt "github.com/taskctl/taskctl/internal/verifrt"
	"github.com/taskctl/taskctl/pkg/task"
)

// End-to-end cross-check of the rely/guarantee composition: the whole real
// Schedule run from the initial state in thread mode (workers are real
// goroutines of the interpreter, interleavings enumerated under a preemption
// bound), data (outcomes, allow_failure, conditions) symbolic.

type tRunner struct{}

var tRuns []int

func (tRunner) Run(t *task.Task) error {
	j := -1
	for k, x := range iSt {
		if x.st.Task == t {
			j = k
		}
	}
	x := iSt[j]
	tRuns[j]++
	for _, d := range x.deps {
		y := iSt[d]
		rt.Assert(iFin(y.st.ReadStatus(), y.st.AllowFailure), "C01.dependencies-finished-when-the-task-starts")
	}
	rt.Yield() // the task takes time: other threads may run
	if x.fail {
		return rt.ErrorNew("task failed")
	}
	return nil
}
func (tRunner) Cancel() {}
func (tRunner) Finish() {}

func VerifSchedWhole(n, edges, preempt int) {
	if !iBuild(n, edges) {
		return
	}
	rt.ThreadMode(preempt)
	iSched = NewScheduler(tRunner{})
	tRuns = make([]int, n)
	for _, x := range iSt {
		nm := x.st.Name
		x.st.AllowFailure = rt.Bool("allow." + nm)
		x.fail = rt.Bool("fails." + nm)
		if rt.Bool("has-condition." + nm) {
			x.condKind = 1
			x.st.Condition = "cond-" + nm
		}
		x.condTrue = rt.Bool("condition-true." + nm)
	}
	iModel()
	rt.Redirect("github.com/taskctl/taskctl/pkg/scheduler.checkStageCondition", iCondition)
	err := iSched.Schedule(iGraph)
	rt.Cover("C03.whole-run-returns")
	hard := false
	for j, x := range iSt {
		s := x.st.Status
		m := x.model
		want := rt.Ite(m == mSkipped, StatusSkipped, rt.Ite(m == mCanceled, StatusCanceled, rt.Ite(m == mFailedHard, StatusError, StatusDone)))
		rt.Assert(int(s) == want, "C02.whole-run-final-status-equals-reference-model")
		runs := rt.Ite(rt.Or(m == mSkipped, m == mCanceled), 0, 1)
		rt.Assert(tRuns[j] == runs, "C03.whole-run-each-eligible-stage-exactly-once")
		hard = rt.Or(hard, m == mFailedHard)
	}
	rt.Assert((err != nil) == hard, "C02.whole-run-error-iff-hard-failure")
}
