//go:build verif

package scheduler

import (
	"time"

	rt "github.com/taskctl/taskctl/internal/verifrt"
	"github.com/taskctl/taskctl/pkg/task"
	"github.com/taskctl/taskctl/pkg/variables"
)

// C04 end to end, with tasks that NEED the concurrency: a task does not return before the tasks of
// the stages that are eligible together with it have started. A scheduler (or anything between the
// scheduler and the runner) that makes one of them wait for another to finish never completes the
// run: the engine reports the deadlock / livelock. Stages carry env and variables containers, as
// every stage built from a configuration file does.

type bRunner struct{}

var bStarted map[string]bool
var bNeed map[string][]string

func (bRunner) Run(t *task.Task) error {
	bStarted[t.Name] = true
	for {
		all := true
		for _, p := range bNeed[t.Name] {
			if !bStarted[p] {
				all = false
			}
		}
		if all {
			return nil
		}
		time.Sleep(time.Millisecond) // polling; when nothing can make progress any more the engine ends the path as a livelock
	}
}
func (bRunner) Cancel() {}
func (bRunner) Finish() {}

// shape 0: a, b independent, each waits for the other; 1: a, b, c independent, each waits for the
// other two; 2: a -> {b, c}, b and c wait for each other; 3: a, b independent and c after a: the
// long-running b waits for c (which becomes eligible while b runs).
func VerifSchedBarrier(shape, preempt int) {
	rt.ThreadMode(preempt)
	rt.Unwind(2000)
	bStarted = map[string]bool{}
	names := [][]string{{"a", "b"}, {"a", "b", "c"}, {"a", "b", "c"}, {"a", "b", "c"}}[shape]
	deps := []map[string][]string{
		{},
		{},
		{"b": {"a"}, "c": {"a"}},
		{"c": {"a"}},
	}[shape]
	bNeed = []map[string][]string{
		{"a": {"b"}, "b": {"a"}},
		{"a": {"b", "c"}, "b": {"a", "c"}, "c": {"a", "b"}},
		{"b": {"c"}, "c": {"b"}},
		{"b": {"c"}},
	}[shape]
	var stages []*Stage
	for _, n := range names {
		t := task.FromCommands("true")
		t.Name = n
		stages = append(stages, &Stage{Name: n, Task: t, DependsOn: deps[n],
			Env: variables.FromMap(map[string]string{"E": n}), Variables: variables.FromMap(map[string]string{"V": n})})
	}
	g, err := NewExecutionGraph(stages...)
	rt.Assert(err == nil, "C04.barrier.graph-built")
	serr := NewScheduler(bRunner{}).Schedule(g)
	rt.Assert(serr == nil, "C04.barrier.run-succeeds")
	for _, st := range stages {
		rt.Assert(st.ReadStatus() == StatusDone, "C04.barrier.every-stage-ran-to-completion")
	}
	rt.Cover("C04.barrier-checked")
}
