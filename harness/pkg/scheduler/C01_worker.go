//go:build verif

package scheduler

import (
	"time"

	rt "github.com/taskctl/taskctl/internal/verifrt"
	"github.com/taskctl/taskctl/pkg/task"
)

// The worker side of the rely/guarantee argument: the real goroutine body that
// Schedule starts for a stage is executed (inline) against a stub runner, and
// every status it publishes must follow the rely relation iStep/iMayStop that
// the pass harness assumes of workers.

var wStage *Stage
var wFail bool
var wRuns int
var wPrev int32
var wDone int
var wWorkerRan bool
var wPreErr bool

type wRunner struct{}

func (wRunner) Run(t *task.Task) error {
	wRuns++
	rt.Assert(t == wStage.Task, "C01.worker-runs-its-own-stage-task")
	rt.Assert(wStage.Status == StatusRunning, "C01.status-published-only-after-the-task-returned")
	if wFail {
		return rt.ErrorNew("task failed")
	}
	return nil
}
func (wRunner) Cancel() {}
func (wRunner) Finish() {}

func wObserve() {
	cur := wStage.Status
	rt.Assert(iStep(wPrev, cur, wFail, wStage.AllowFailure), "C01.worker-status-steps-follow-the-rely-relation")
	wPrev = cur
}

func wOnGo(run func()) {
	wPrev = wStage.Status
	rt.Assert(wPrev == StatusRunning, "C03.stage-is-running-when-its-worker-starts")
	rt.BeforeAtomic(wObserve)
	run()
	rt.BeforeAtomic(nil)
	wObserve()
	wWorkerRan = true
}

func wWgDone(wg interface{}) { wDone++ }

func wCut(d time.Duration) {
	rt.Assert(wWorkerRan, "C03.worker-started")
	allow := wStage.AllowFailure
	rt.Assert(iMayStop(wStage.Status, allow), "C01.worker-returns-only-at-a-final-status")
	wantFinal := rt.Ite(rt.And(wFail, rt.Not(allow)), StatusError, StatusDone)
	rt.Assert(int(wStage.Status) == wantFinal, "C02.worker-final-status")
	rt.Assert(wDone == 1, "C03.worker-signals-completion-exactly-once")
	if wStage.Task != nil {
		rt.Assert(wRuns == 1, "C03.worker-runs-the-task-exactly-once")
	}
	hard := rt.And(wFail, rt.Not(allow))
	rt.Assert((iGraph.error != nil) == rt.Or(hard, wPreErr), "C07.hard-failure-recorded-as-run-error")
	rt.Assert(rt.Implies(wPreErr, iGraph.error != nil), "C02.a-worker-never-clears-an-error-recorded-by-another-stage")
	rt.Cover("C01.worker-checked")
	rt.Stop()
}

// VerifSchedWorker: kind 0 = task stage, 1 = nested-pipeline stage.
func VerifSchedWorker(kind int) {
	tk := task.FromCommands("true")
	wStage = &Stage{Name: "a", Task: tk, AllowFailure: rt.Bool("allow.a")}
	wFail = rt.Bool("fails.a")
	wRuns, wDone, wWorkerRan = 0, 0, false
	if kind == 1 {
		inner, _ := NewExecutionGraph()
		if wFail {
			inner.error = rt.ErrorNew("inner pipeline failed")
		}
		wStage.Pipeline = inner
		wStage.Task = nil
	}
	g, err := NewExecutionGraph(wStage)
	rt.Assert(err == nil, "C01.graph-built")
	iGraph = g
	// another stage may already have recorded the run's error
	wPreErr = rt.Bool("error-already-recorded-by-another-stage")
	if wPreErr {
		g.error = rt.ErrorNew("another stage failed")
	}
	rt.Redirect("time.Sleep", wCut)
	rt.Redirect("(*sync.WaitGroup).Done", wWgDone)
	rt.OnGo(wOnGo)
	NewScheduler(wRunner{}).Schedule(g)
	rt.Assert(false, "C03.first-pass-reaches-the-pause")
}
