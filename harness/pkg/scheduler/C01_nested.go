//go:build verif

package scheduler

import (
	rt "github.com/taskctl/taskctl/internal/verifrt"
	"github.com/taskctl/taskctl/pkg/task"
)

// Nested pipelines, whole run in thread mode: the outer pipeline has stages a, b and a
// pipeline-typed stage p (depends on a subset of a, b per outerEdges); the inner pipeline has
// stages that REUSE the names a, b, c with their own dependencies (innerEdges, same encoding
// as iBuild over 3 stages). Inner and outer stages with the same name are different stages.

type nStage struct {
	st   *Stage
	deps []*nStage
	runs int
	fail bool
}

var nAll []*nStage

type nRunner struct{}

func (nRunner) Run(t *task.Task) error {
	var x *nStage
	for _, y := range nAll {
		if y.st.Task == t {
			x = y
		}
	}
	x.runs++
	for _, d := range x.deps {
		rt.Assert(iFin(d.st.ReadStatus(), d.st.AllowFailure), "C01.nested-dependencies-finished-when-the-task-starts")
	}
	rt.Yield()
	if x.fail {
		return rt.ErrorNew("task failed")
	}
	return nil
}
func (nRunner) Cancel() {}
func (nRunner) Finish() {}

func nBuild(names []string, n, edges int, prefix string) ([]*nStage, *ExecutionGraph, bool) {
	var out []*nStage
	var stages []*Stage
	for j := 0; j < n; j++ {
		s := &Stage{Name: names[j], Task: task.FromCommands("true")}
		s.AllowFailure = false
		x := &nStage{st: s, fail: rt.Bool(prefix + ".fails." + names[j])}
		out = append(out, x)
		stages = append(stages, s)
	}
	k := 0
	for i := 0; i < n; i++ {
		for j := 0; j < n; j++ {
			if i == j {
				continue
			}
			if edges&(1<<k) != 0 {
				out[j].deps = append(out[j].deps, out[i])
				out[j].st.DependsOn = append(out[j].st.DependsOn, names[i])
			}
			k++
		}
	}
	g, err := NewExecutionGraph(stages...)
	return out, g, err == nil
}

// VerifSchedNested: pdeps bit0: p depends on outer a, bit1: on outer b; outer a->b iff ab == 1.
func VerifSchedNested(innerEdges, pdeps, ab, preempt int) {
	rt.ThreadMode(preempt)
	nAll = nil
	inner, ig, ok := nBuild([]string{"a", "b", "c"}, 3, innerEdges, "inner")
	if !ok {
		return
	}
	oe := 0
	if ab == 1 {
		oe = 1 // a -> b
	}
	outer, _, ok2 := nBuild([]string{"a", "b"}, 2, oe, "outer")
	if !ok2 {
		return
	}
	p := &Stage{Name: "c", Pipeline: ig}
	pn := &nStage{st: p}
	if pdeps&1 != 0 {
		p.DependsOn = append(p.DependsOn, "a")
		pn.deps = append(pn.deps, outer[0])
	}
	if pdeps&2 != 0 {
		p.DependsOn = append(p.DependsOn, "b")
		pn.deps = append(pn.deps, outer[1])
	}
	og, err := NewExecutionGraph(outer[0].st, outer[1].st, p)
	rt.Assert(err == nil, "C01.nested-outer-graph-built")
	nAll = append(append([]*nStage{}, outer...), inner...)
	sd := NewScheduler(nRunner{})
	sd.Schedule(og)
	rt.Cover("C01.nested-run-returns")
	// the nested pipeline may only have started once p's own dependencies were finished, so:
	pCanRun := true
	for _, d := range pn.deps {
		pCanRun = rt.And(pCanRun, rt.Or(rt.Not(d.fail), d.st.AllowFailure))
	}
	if ab == 1 && pdeps&2 != 0 {
		pCanRun = rt.And(pCanRun, rt.Or(rt.Not(outer[0].fail), outer[0].st.AllowFailure))
	}
	for _, x := range inner {
		rt.Assert(x.runs <= 1, "C03.nested-stage-runs-at-most-once")
		rt.Assert(rt.Implies(rt.Not(pCanRun), x.runs == 0), "C02.nested-pipeline-does-not-run-when-its-stage-is-cancelled")
	}
	for _, x := range outer {
		rt.Assert(x.runs <= 1, "C03.nested-outer-stage-runs-at-most-once")
	}
}
