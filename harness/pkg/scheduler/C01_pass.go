//go:build verif

package scheduler

import (
	rt "github.com/taskctl/taskctl/internal/verifrt"
)

// VerifSchedPass: one pass (or the exit path) of the real Scheduler.Schedule on the
// n-stage graph with edge mask `edges`, from an arbitrary invariant state, with
// worker interference at every atomic operation. Serves C01-C04.
func VerifSchedPass(n, edges, aliveMask int) {
	if !iBuild(n, edges) {
		return
	}
	rt.Cover("C01.acyclic-graph")
	iArbitraryState(aliveMask)
	iInstall()
	err := iSched.Schedule(iGraph)
	// Schedule returned: the loop saw no stage waiting or running, and all workers finished
	rt.Cover("C03.schedule-returns")
	hard := false
	for _, x := range iSt {
		s := x.st.Status
		rt.Assert(rt.And(s != StatusRunning, s != StatusWaiting), "C03.no-stage-left-waiting-or-running")
		rt.Assert(iInv(x, s, false), "C02.invariant-at-exit")
		m := x.model
		want := rt.Ite(m == mSkipped, StatusSkipped, rt.Ite(m == mCanceled, StatusCanceled, rt.Ite(m == mFailedHard, StatusError, StatusDone)))
		rt.Assert(int(s) == want, "C02.final-status-equals-reference-model")
		hard = rt.Or(hard, m == mFailedHard)
	}
	rt.Assert((err != nil) == hard, "C02.run-reports-error-iff-a-stage-failed-hard")
}
