//go:build verif

package scheduler

import (
	rt "github.com/taskctl/taskctl/internal/verifrt"
)

var c05Names = []string{"a", "b", "c", "d", "e"}
var c05Digits = []string{"0", "1", "2", "3", "4", "5"}

// VerifC05Graph: n stages named a,b,.. in declaration order, each with a
// symbolic number (0..d) of symbolic dependencies among all n names. The real
// NewExecutionGraph is compared with a reference cycle test (Boolean
// transitive closure) and, when accepted, its edge sets with the declared ones.
//
// part selects the vector of dependency counts (one job per vector), so that
// jobs run in parallel and every slice length is concrete.
func VerifC05Graph(n, d, part int) {
	rt.Unwind(5000)
	names := c05Names[:n]
	stages := make([]*Stage, n)
	// adj[i][j]: stage j declares a dependency on stage i (edge i -> j)
	adj := make([][]bool, n)
	for i := range adj {
		adj[i] = make([]bool, n)
	}
	edges := 0
	for k := 0; k < n; k++ {
		cnt := part % (d + 1)
		part /= d + 1
		rt.Observe("ndeps."+names[k], cnt)
		deps := make([]string, d)
		for l := 0; l < d; l++ {
			deps[l] = rt.OneOf("dep."+names[k]+"."+c05Digits[l], names...)
			for i := 0; i < n; i++ {
				adj[i][k] = rt.Or(adj[i][k], rt.And(l < cnt, deps[l] == names[i]))
			}
		}
		edges += cnt
		stages[k] = &Stage{Name: names[k], DependsOn: deps[:cnt]}
	}
	// reference: transitive closure
	reach := make([][]bool, n)
	for i := range reach {
		reach[i] = make([]bool, n)
		copy(reach[i], adj[i])
	}
	for k := 0; k < n; k++ {
		for i := 0; i < n; i++ {
			for j := 0; j < n; j++ {
				reach[i][j] = rt.Or(reach[i][j], rt.And(reach[i][k], reach[k][j]))
			}
		}
	}
	cyclic := false
	for i := 0; i < n; i++ {
		cyclic = rt.Or(cyclic, reach[i][i])
	}
	// a "diamond": some node reachable from another along two different first edges
	rt.Observe("cyclic", cyclic)

	g, err := NewExecutionGraph(stages...)

	rejected := err != nil
	rt.Observe("rejected", rejected)
	if rejected {
		rt.Cover("C05.rejected")
		rt.Assert(err == ErrCycleDetected, "C05.error-is-cycle-error")
		rt.Assert(cyclic, "C05.rejected-implies-cyclic")
		return
	}
	rt.Cover("C05.accepted")
	rt.Assert(rt.Not(cyclic), "C05.accepted-implies-acyclic")
	rt.Assert(g != nil, "C05.accepted-graph-non-nil")
	if g == nil {
		return
	}
	// accepted: exactly the declared edges, in both directions
	for j := 0; j < n; j++ {
		to := g.To(names[j])
		for i := 0; i < n; i++ {
			has := false
			for _, x := range to {
				has = rt.Or(has, x == names[i])
			}
			rt.Assert(has == adj[i][j], "C05.To-exact")
		}
	}
	for i := 0; i < n; i++ {
		from := g.From(names[i])
		for j := 0; j < n; j++ {
			has := false
			for _, x := range from {
				has = rt.Or(has, x == names[j])
			}
			rt.Assert(has == adj[i][j], "C05.From-exact")
		}
	}
	for i := 0; i < n; i++ {
		st, e2 := g.Node(names[i])
		rt.Assert(rt.And(e2 == nil, st == stages[i]), "C05.Node-exact")
	}
	// cover: an accepted graph in which some stage is reachable along two paths
	dia := false
	for i := 0; i < n; i++ {
		for j := 0; j < n; j++ {
			for k := 0; k < n; k++ {
				for l := 0; l < n; l++ {
					if k != l {
						dia = rt.Or(dia, rt.And(adj[i][k], adj[i][l], reach[k][j], rt.Or(reach[l][j], l == j)))
					}
				}
			}
		}
	}
	if dia {
		rt.Cover("C05.diamond")
	}
}
