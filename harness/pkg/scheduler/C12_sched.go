//go:build verif

package scheduler

import (
	"context"
	"time"

	rt "github.com/taskctl/taskctl/internal/verifrt"
	"github.com/taskctl/taskctl/pkg/executor"
	"github.com/taskctl/taskctl/pkg/runner"
	"github.com/taskctl/taskctl/pkg/task"
	"mvdan.cc/sh/v3/interp"
)

// C12 through the scheduler: a pipeline of three stages run by the REAL Scheduler with the REAL
// TaskRunner (executor stub: a command starts, takes time, and ends with the context's error when
// the runner was cancelled meanwhile). The run is cancelled by another thread calling
// Scheduler.Cancel at any moment (mode 0) or from inside Schedule by a stage condition that cannot
// be evaluated once commands are running (mode 1).

var q12CancelReturned bool
var q12Started, q12Interrupted map[string]bool
var q12LateStart bool
var q12D = []string{"0", "1", "2"}

func q12Execute(e *executor.DefaultExecutor, ctx context.Context, job *executor.Job) ([]byte, error) {
	name := job.Command
	if rt.CtxCancelled(ctx) {
		q12Interrupted[name] = true
		return nil, ctx.Err()
	}
	if q12CancelReturned {
		q12LateStart = true
	}
	q12Started[name] = true
	if q12Atomic {
		rt.Yield() // a preemption point only (the nested shapes have too many pollers for a descheduling command)
	} else {
		time.Sleep(time.Millisecond) // the command is running: the thread is descheduled, whatever else can happen happens
	}
	if rt.CtxCancelled(ctx) {
		rt.Cover("C12.sched.a-running-command-was-interrupted")
		q12Interrupted[name] = true
		return nil, ctx.Err()
	}
	if rt.Bool("command-fails." + name) {
		return nil, interp.NewExitStatus(2)
	}
	return nil, nil
}
func q12NewExecutor(stdin interface{}, stdout, stderr interface{}) (*executor.DefaultExecutor, error) {
	return &executor.DefaultExecutor{}, nil
}
func q12Render(t string, m map[string]interface{}) (string, error) { return t, nil }

var q12CondFails, q12Atomic bool

func q12Condition(c string) (bool, error) {
	if q12CondFails && len(q12Started) > 0 {
		return false, rt.ErrorNew("exec: condition cannot be evaluated")
	}
	return true, nil
}

// shape 0: a, b after a, c independent; 1: three independent stages; 2: chain a -> b -> c;
// 3: outer pipeline {n = nested pipeline {a, b}, c}: the condition (mode 1) sits on the nested stage b
func VerifC12Sched(shape, mode, preempt int) {
	rt.ThreadMode(preempt)
	rt.Redirect("(*github.com/taskctl/taskctl/pkg/executor.DefaultExecutor).Execute", q12Execute)
	rt.Redirect("github.com/taskctl/taskctl/pkg/executor.NewDefaultExecutor", q12NewExecutor)
	rt.Redirect("github.com/taskctl/taskctl/pkg/utils.RenderString", q12Render)
	rt.Redirect("github.com/taskctl/taskctl/pkg/scheduler.checkStageCondition", q12Condition)
	q12CancelReturned, q12LateStart = false, false
	q12Started, q12Interrupted = map[string]bool{}, map[string]bool{}
	q12CondFails = mode == 1
	q12Atomic = shape == 3
	deps := [][][]string{{nil, {"a"}, nil}, {nil, nil, nil}, {nil, {"a"}, {"b"}}, {nil, {"a"}, nil}}[shape]
	g, _ := NewExecutionGraph()
	inner, _ := NewExecutionGraph()
	var stages []*Stage
	for i, n := range []string{"a", "b", "c"} {
		t := task.FromCommands("cmd-" + n)
		t.Name = n
		st := &Stage{Name: n, Task: t, DependsOn: deps[i]}
		st.AllowFailure = rt.Bool("stage-allows-failure." + n)
		t.AllowFailure = rt.Bool("task-allows-failure." + n)
		if mode == 1 && i == 1 {
			st.Condition = "cond-b"
		}
		if shape == 3 && i < 2 {
			rt.Assert(inner.AddStage(st) == nil, "C12.sched.graph-built")
		} else {
			rt.Assert(g.AddStage(st) == nil, "C12.sched.graph-built")
		}
		stages = append(stages, st)
	}
	if shape == 3 {
		rt.Assert(g.AddStage(&Stage{Name: "n", Pipeline: inner}) == nil, "C12.sched.graph-built")
	}
	r, err := runner.NewTaskRunner()
	rt.Assert(err == nil, "C12.runner-created")
	s := NewScheduler(r)
	var serr error
	returned := false
	rt.Spawn("schedule", func() {
		serr = s.Schedule(g)
		returned = true
	})
	if mode == 0 {
		rt.Spawn("cancel", func() {
			s.Cancel()
			q12CancelReturned = true
		})
	}
	rt.WaitThreads()
	rt.Assert(returned, "C12.sched.the-pipeline-run-returns")
	rt.Assert(!q12LateStart, "C12.no-command-starts-after-cancellation-completed")
	anyInterrupted := false
	for _, st := range stages {
		name := "cmd-" + st.Name
		if q12Interrupted[name] {
			anyInterrupted = true
			rt.Cover("C12.sched.a-stage-was-interrupted")
			rt.Assert(st.ReadStatus() != StatusDone || st.AllowFailure, "C12.sched.interrupted-stage-does-not-report-success")
			rt.Assert(st.Task.Errored, "C12.interrupted-task-reports-an-error")
		}
		if !q12Started[name] && !q12Interrupted[name] {
			// (a stage that allows failure ends Done also when its task's run was refused: that is what allow_failure means at stage level)
			rt.Assert(st.ReadStatus() != StatusDone || st.Task.Skipped || st.AllowFailure, "C12.sched.a-stage-that-never-ran-does-not-report-success")
		}
	}
	if anyInterrupted {
		hard := false
		for _, st := range stages {
			if q12Interrupted["cmd-"+st.Name] && !st.AllowFailure {
				hard = true
			}
		}
		if hard {
			rt.Assert(serr != nil, "C12.sched.a-run-with-an-interrupted-stage-reports-an-error")
		}
	}
	rt.Cover("C12.sched-checked")
}
