//go:build verif

package scheduler

import (
	rt "github.com/taskctl/taskctl/internal/verifrt"
	"github.com/taskctl/taskctl/pkg/task"
)

// C03, cancelled runs (thread mode): the run is cancelled either because a stage's condition
// cannot be evaluated (mode 1: the stage chosen by `which`), or by another thread calling
// Scheduler.Cancel at any point (mode 2). The run must still return (a deadlock / livelock
// outcome is reported by the engine) and no task may start once Cancel has returned.

type kRunner struct{}

var kCancelled, kCancelReturned bool
var kRunsStarted int

func (kRunner) Run(t *task.Task) error {
	if kCancelled {
		// a cancelled runner refuses to start anything (what TaskRunner.Run does: C12)
		return rt.ErrorNew("context canceled")
	}
	kRunsStarted++
	rt.Yield()
	if kCancelled {
		return rt.ErrorNew("context canceled")
	}
	for _, x := range iSt {
		if x.st.Task == t && x.fail {
			return rt.ErrorNew("task failed")
		}
	}
	return nil
}
func (kRunner) Cancel() { kCancelled = true; rt.Yield() }
func (kRunner) Finish() {}

var kBadCondition string

func kCondition(c string) (bool, error) {
	if c == kBadCondition {
		return false, rt.ErrorNew("exec: condition command not found")
	}
	return true, nil
}

func VerifSchedCancel(n, edges, mode, which, preempt int) {
	if !iBuild(n, edges) {
		return
	}
	rt.ThreadMode(preempt)
	kCancelled, kCancelReturned, kRunsStarted = false, false, 0
	iSched = NewScheduler(kRunner{})
	for _, x := range iSt {
		x.fail = rt.Bool("fails." + x.st.Name)
		x.st.AllowFailure = rt.Bool("allow." + x.st.Name)
	}
	kBadCondition = ""
	if mode == 1 {
		iSt[which].st.Condition = "cond-" + iSt[which].st.Name
		kBadCondition = iSt[which].st.Condition
	}
	rt.Redirect("github.com/taskctl/taskctl/pkg/scheduler.checkStageCondition", kCondition)
	if mode == 2 {
		rt.Spawn("canceller", func() {
			iSched.Cancel()
			kCancelReturned = true
		})
	}
	iSched.Schedule(iGraph)
	rt.Cover("C03.cancelled-run-returns")
	for _, x := range iSt {
		rt.Assert(x.st.Status != StatusRunning, "C03.cancelled-run-leaves-no-stage-running")
	}
	if mode == 1 {
		rt.Assert(iSt[which].st.Status == StatusError, "C03.stage-with-unevaluable-condition-is-errored")
		rt.Cover("C03.condition-error-cancels-the-run")
	}
}
