//go:build verif

package scheduler

// Interference-mode harness for the scheduling loop (DESIGN §2.7a).
//
// One pass of the real Schedule loop (or its exit path) is executed from an
// ARBITRARY state satisfying the invariant; before every atomic operation of
// the loop the statuses of all stages with a live worker are replaced by fresh
// symbolic values constrained only by the rely relation ("any number of steps
// of any worker happened here"). time.Sleep is the cut point where the
// invariant and the per-pass obligations are asserted.

import (
	"time"

	rt "github.com/taskctl/taskctl/internal/verifrt"
	"github.com/taskctl/taskctl/pkg/task"
)

var iNames = []string{"a", "b", "c", "d"}

const (
	mSkipped = iota
	mCanceled
	mDone
	mFailedAllowed
	mFailedHard
)

type iStage struct {
	st       *Stage
	deps     []int // indices of dependencies
	alive    bool  // worker launched and not yet returned (symbolic)
	fail     bool  // the task's outcome (symbolic constant)
	condKind int   // 0 none, 1 present (its truth is condTrue)
	condTrue bool
	last     int32 // value after the last environment step / legitimate loop write
	s0       int32 // value at the start of the pass
	alive0   bool
	launched bool // launched in this pass
	runs     int  // Run calls observed (worker harness)
	// reference model class (symbolic)
	model int
}

var iSt []*iStage
var iGerr bool // ghost: g.error != nil
var iGraph *ExecutionGraph
var iSched *Scheduler
var iCutReached bool
var iErrSentinel = rt.ErrorNew("stage failed")

type iRunner struct{}

func (iRunner) Run(t *task.Task) error { rt.Assert(false, "C04.no-task-runs-on-the-scheduling-thread"); return nil }
func (iRunner) Cancel()                { rt.Assert(false, "C03.pass-does-not-cancel") }
func (iRunner) Finish()                {}

func iFin(s int32, allow bool) bool {
	return rt.Or(s == StatusDone, s == StatusSkipped, rt.And(s == StatusError, allow))
}

// iBuild creates the graph for edge mask `edges` over ordered pairs (i,j), i != j
// (bit k of the mask: pair number k in row-major order means j depends on i), and
// gives every stage an arbitrary status / flags.
func iBuild(n, edges int) bool {
	iSt = nil
	var stages []*Stage
	k := 0
	dep := make([][]int, n)
	for i := 0; i < n; i++ {
		for j := 0; j < n; j++ {
			if i == j {
				continue
			}
			if edges&(1<<k) != 0 {
				dep[j] = append(dep[j], i)
			}
			k++
		}
	}
	for j := 0; j < n; j++ {
		s := &Stage{Name: iNames[j], Task: task.FromCommands("true")}
		for _, d := range dep[j] {
			s.DependsOn = append(s.DependsOn, iNames[d])
		}
		stages = append(stages, s)
		iSt = append(iSt, &iStage{st: s, deps: dep[j]})
	}
	g, err := NewExecutionGraph(stages...)
	if err != nil {
		return false // cyclic: not a pipeline taskctl accepts
	}
	iGraph = g
	iSched = NewScheduler(iRunner{})
	return true
}

// iModel computes the reference outcome class of every stage (C02), in dependency order.
func iModel() {
	n := len(iSt)
	done := make([]bool, n)
	for round := 0; round < n; round++ {
		for j, x := range iSt {
			if done[j] {
				continue
			}
			ready := true
			for _, d := range x.deps {
				if !done[d] {
					ready = false
				}
			}
			if !ready {
				continue
			}
			skipped := rt.And(x.condKind == 1, rt.Not(x.condTrue))
			blocked := false
			for _, d := range x.deps {
				blocked = rt.Or(blocked, iSt[d].model == mCanceled, iSt[d].model == mFailedHard)
			}
			m := rt.Ite(x.fail, rt.Ite(x.st.AllowFailure, mFailedAllowed, mFailedHard), mDone)
			m = rt.Ite(blocked, mCanceled, m)
			m = rt.Ite(skipped, mSkipped, m)
			x.model = m
			done[j] = true
		}
	}
}

// iCompat: the status of a stage is compatible with its model class (invariant I2).
func iCompat(x *iStage, s int32, alive bool) bool {
	m := x.model
	return rt.And(
		rt.Implies(s == StatusRunning, rt.Or(m == mDone, m == mFailedAllowed, m == mFailedHard)),
		rt.Implies(s == StatusDone, rt.Or(m == mDone, m == mFailedAllowed)),
		rt.Implies(s == StatusError, rt.Or(m == mFailedHard, rt.And(m == mFailedAllowed, alive))),
		rt.Implies(s == StatusSkipped, m == mSkipped),
		rt.Implies(s == StatusCanceled, m == mCanceled),
	)
}

// iInv: the invariant of the scheduling loop, for one stage.
func iInv(x *iStage, s int32, alive bool) bool {
	return rt.And(
		rt.And(s >= 0, s <= 5),
		rt.Implies(alive, rt.Or(s == StatusRunning, s == StatusError, s == StatusDone)),
		rt.Implies(s == StatusRunning, alive),
		rt.Implies(rt.And(s == StatusError, x.st.AllowFailure), alive),
		iCompat(x, s, alive),
	)
}

// iGerrInv: ghost "g.error is set" is consistent with the statuses.
func iGerrInv() bool {
	some := false
	all := true
	for _, x := range iSt {
		hard := rt.And(x.st.Status == StatusError, rt.Not(x.st.AllowFailure))
		some = rt.Or(some, hard)
		all = rt.And(all, rt.Implies(rt.And(hard, rt.Not(x.alive)), iGerr))
	}
	return rt.And(rt.Implies(iGerr, some), all)
}

// iArbitraryState gives every stage symbolic attributes and an arbitrary status satisfying the invariant.
func iArbitraryState(aliveMask int) {
	for _, x := range iSt {
		nm := x.st.Name
		x.st.AllowFailure = rt.Bool("allow." + nm)
		x.fail = rt.Bool("fails." + nm)
		x.condKind = 0
		if rt.Bool("has-condition." + nm) {
			x.condKind = 1
			x.st.Condition = "cond-" + nm
		}
		x.condTrue = rt.Bool("condition-true." + nm)
	}
	iModel()
	for _, x := range iSt {
		nm := x.st.Name
		x.st.Status = rt.Int32("status." + nm)
		// which workers are in flight is fixed per job (partition): stages without a live worker
		// are not touched by the environment, so repeated reads of their status agree
		x.alive = aliveMask&(1<<uint(len(nm)-1+int(nm[0]-'a'))) != 0
		rt.Observe("alive."+nm, x.alive)
		rt.Assume(iInv(x, x.st.Status, x.alive))
		x.last, x.s0, x.alive0 = x.st.Status, x.st.Status, x.alive
		x.launched = false
	}
	iGerr = rt.Bool("g.error-set")
	rt.Assume(iGerrInv())
}

// iStep: what a live worker may have done to its stage's status (reflexive, transitive).
// Validated against the real worker closure by VerifSchedWorker.
func iStep(cur, ns int32, fail, allow bool) bool {
	return rt.Or(
		rt.And(cur == StatusRunning, rt.Or(ns == StatusRunning, rt.And(ns == StatusError, fail), rt.And(ns == StatusDone, rt.Or(rt.Not(fail), allow)))),
		rt.And(cur == StatusError, rt.Or(ns == StatusError, rt.And(ns == StatusDone, allow))),
		rt.And(cur == StatusDone, ns == StatusDone),
	)
}

// iMayStop: a worker returns only with its stage at Done, or at Error without allow_failure.
func iMayStop(ns int32, allow bool) bool {
	return rt.Or(ns == StatusDone, rt.And(ns == StatusError, rt.Not(allow)))
}

// iRely: between two atomic operations of the loop any worker may have moved on.
// Also checks the loop's guarantee: what changed since the last environment step
// was a legitimate write of the loop (Waiting -> Running/Skipped/Canceled/Error).
func iRely() {
	newGerr := rt.Bool("env.g.error-set")
	okGerr := rt.Implies(iGerr, newGerr)
	cause := false
	for _, x := range iSt {
		cur := x.st.Status
		if rt.IsConcrete(x.alive) && !x.alive {
			// no live worker: the environment cannot touch this stage; only check the loop's guarantee
			rt.Assert(rt.Or(cur == x.last, rt.And(x.last == StatusWaiting, rt.Or(cur == StatusRunning, cur == StatusSkipped, cur == StatusCanceled, cur == StatusError))), "C03.loop-writes-only-waiting-stages")
			x.last = cur
			continue
		}
		rt.Assert(rt.Or(cur == x.last, rt.And(x.last == StatusWaiting, rt.Or(cur == StatusRunning, cur == StatusSkipped, cur == StatusCanceled, cur == StatusError))), "C03.loop-writes-only-waiting-stages")
		ns := rt.Int32("env.status." + x.st.Name)
		na := rt.Bool("env.alive." + x.st.Name)
		allow := x.st.AllowFailure
		step := iStep(cur, ns, x.fail, allow)
		mayStop := iMayStop(ns, allow)
		rel := rt.Or(
			rt.And(rt.Not(x.alive), ns == cur, rt.Not(na)),
			rt.And(x.alive, step, rt.Implies(rt.Not(na), mayStop)),
		)
		rt.Assume(rel)
		hardStop := rt.And(x.alive, rt.Not(na), ns == StatusError, rt.Not(allow))
		okGerr = rt.And(okGerr, rt.Implies(hardStop, newGerr))
		cause = rt.Or(cause, rt.And(x.alive, ns == StatusError, rt.Not(allow)))
		x.st.Status = ns
		x.alive = na
		x.last = ns
	}
	rt.Assume(rt.And(okGerr, rt.Implies(rt.And(newGerr, rt.Not(iGerr)), cause)))
	iGerr = newGerr
}

// iOnGo: the loop starts a worker.
func iOnGo(run func()) {
	// which stage? the one the loop has just set to Running
	found := -1
	for j, x := range iSt {
		if rt.And(x.st.Status == StatusRunning, rt.Not(x.alive), x.last == StatusWaiting) {
			rt.Assert(found == -1, "C03.one-launch-per-status-write")
			found = j
		}
	}
	rt.Assert(found >= 0, "C03.launch-follows-status-running")
	if found < 0 {
		return
	}
	x := iSt[found]
	rt.Cover("C01.launch")
	rt.Assert(rt.Not(x.launched), "C03.stage-launched-at-most-once-per-pass")
	rt.Assert(x.s0 == StatusWaiting, "C03.only-waiting-stages-are-launched")
	for _, d := range x.deps {
		y := iSt[d]
		rt.Assert(iFin(y.st.Status, y.st.AllowFailure), "C01.dependencies-finished-at-launch")
	}
	rt.Assert(rt.Or(x.condKind == 0, x.condTrue), "C02.stage-with-false-condition-never-runs")
	x.launched = true
	x.alive = true
	x.last = StatusRunning
}

func iCondition(c string) (bool, error) {
	for _, x := range iSt {
		if x.st.Condition == c {
			return x.condTrue, nil
		}
	}
	return true, nil
}

// iCut: the loop reached its pause; assert the pass obligations and stop.
func iCut(d time.Duration) {
	iRely() // includes the guarantee check for the writes since the last atomic operation
	rt.Cover("C03.pass-reaches-the-pause")
	waiting0, waiting1 := 0, 0
	anyAlive0 := false
	anyElig, anyEligLaunched, allEligLaunched := false, false, true
	for _, x := range iSt {
		s := x.st.Status
		rt.Assert(iInv(x, s, x.alive), "C02.invariant-preserved-by-a-pass")
		// C04: eligibility at the start of the pass (dependencies finished, condition not false)
		elig := rt.And(x.s0 == StatusWaiting, rt.Or(x.condKind == 0, x.condTrue))
		for _, d := range x.deps {
			elig = rt.And(elig, iFin(iSt[d].s0, iSt[d].st.AllowFailure))
		}
		anyElig = rt.Or(anyElig, elig)
		anyEligLaunched = rt.Or(anyEligLaunched, rt.And(elig, x.launched))
		allEligLaunched = rt.And(allEligLaunched, rt.Implies(elig, x.launched))
		waiting0 = rt.Ite(x.s0 == StatusWaiting, waiting0+1, waiting0)
		waiting1 = rt.Ite(s == StatusWaiting, waiting1+1, waiting1)
		anyAlive0 = rt.Or(anyAlive0, x.alive0)
	}
	// C04: whatever the other stages are doing (running or not), a pass that finds eligible
	// stages starts at least one of them and never blocks, so every stage that is eligible is
	// started within a bounded number of pauses without waiting for any other stage to finish.
	// (Starting all of them in the same pass is what the current code does; it is recorded as a
	// cover goal, not demanded, because the property does not require it.)
	rt.Assert(rt.Implies(anyElig, anyEligLaunched), "C04.an-eligible-stage-is-started-in-every-pass-whatever-else-is-running")
	if allEligLaunched {
		rt.Cover("C04.all-eligible-started-in-one-pass")
	}
	rt.Assert(iGerrInv(), "C02.error-flag-consistent")
	// C03 progress: with no worker in flight, a pass strictly reduces the number of waiting stages
	rt.Assert(rt.Implies(rt.And(rt.Not(anyAlive0), waiting0 > 0), waiting1 < waiting0), "C03.progress-when-nothing-is-in-flight")
	rt.Stop()
}

// iWait: wg.Wait - every live worker runs to completion.
func iWait(wg interface{}) {
	// the scheduling thread may block only once the loop is over, i.e. when no stage is
	// waiting or running any more (neither state can reappear); blocking inside the loop
	// would make eligible stages wait for unrelated ones to finish
	for _, x := range iSt {
		rt.Assert(rt.And(x.st.Status != StatusWaiting, x.st.Status != StatusRunning), "C04.scheduling-thread-blocks-only-after-the-loop-is-over")
	}
	iRely()
	for _, x := range iSt {
		rt.Assume(rt.Not(x.alive))
	}
	if iGerr {
		iGraph.error = iErrSentinel
	} else {
		iGraph.error = nil
	}
}

func iInstall() {
	rt.Redirect("time.Sleep", iCut)
	rt.Redirect("(*sync.WaitGroup).Wait", iWait)
	rt.Redirect("github.com/taskctl/taskctl/pkg/scheduler.checkStageCondition", iCondition)
	rt.BeforeAtomic(iRely)
	rt.OnGo(iOnGo)
}
