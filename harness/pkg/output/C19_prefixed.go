//go:build verif

package output

import (
	rt "github.com/taskctl/taskctl/internal/verifrt"
	"github.com/taskctl/taskctl/pkg/task"
)

type c19Sink struct {
	writes []string
	chunks [][]byte
}

func (s *c19Sink) Write(p []byte) (int, error) {
	s.writes = append(s.writes, string(p))
	return len(p), nil
}

var c19Digits = []string{"0", "1", "2", "3", "4", "5", "6", "7"}
var c19Alpha = []byte{'a', 'b', '\r', '\n'}

// c19Chunk builds one Write argument: length 0..maxb (forked), every byte a
// symbolic member of {a, b, CR, LF} (wide=0) or any byte except ESC / 0xC2 (wide=1).
func c19Chunk(w, n, wide int) []byte {
	rt.Observe("len."+c19Digits[w], n)
	p := make([]byte, n)
	for i := 0; i < n; i++ {
		nm := "byte." + c19Digits[w] + "." + c19Digits[i]
		if wide == 1 {
			b := rt.Uint8(nm)
			rt.Assume(rt.And(b != 0x1b, b != 0xc2))
			p[i] = b
		} else {
			p[i] = c19Alpha[rt.Choice(nm, len(c19Alpha))]
		}
	}
	return p
}

// c19Kept returns, without branching, the sequence of bytes of bs that are
// neither CR nor LF (slot k holds the k-th kept byte, or -1) and their number.
// Pure bit-vector terms: string theory is kept out of the final comparison.
func c19Kept(bs []byte) ([]int, int) {
	out := make([]int, len(bs))
	for k := range out {
		out[k] = -1
	}
	cnt := 0
	for i, b := range bs {
		keep := rt.Not(rt.Or(b == '\r', b == '\n'))
		for k := 0; k <= i; k++ {
			out[k] = rt.Ite(rt.And(keep, cnt == k), int(b), out[k])
		}
		cnt = rt.Ite(keep, cnt+1, cnt)
	}
	return out, cnt
}

// VerifC19Prefixed: nw Write calls of up to maxb bytes each through the real
// prefixed decorator (bufio.ScanLines, bufio.Writer, lineWriter), then the footer.
// part encodes the vector of chunk lengths (one job per vector, base maxb+1).
func VerifC19Prefixed(nw, maxb, wide, part int) {
	t := &task.Task{Name: "tk"}
	sink := &c19Sink{}
	d := newPrefixedOutputWriter(t, sink)
	var input []byte
	for w := 0; w < nw; w++ {
		p := c19Chunk(w, part%(maxb+1), wide)
		part /= maxb + 1
		input = append(input, p...)
		n, err := d.Write(p)
		rt.Assert(rt.And(err == nil, n == len(p)), "C19.write-accepts-all-bytes")
	}
	rt.Assert(d.WriteFooter() == nil, "C19.footer-ok")

	const prefix = "tk: "
	var got []byte
	for _, wr := range sink.writes {
		ok := len(wr) >= len(prefix)+2
		rt.Assert(ok, "C19.line-has-prefix-and-terminator")
		if !ok {
			return
		}
		rt.Assert(wr[:len(prefix)] == prefix, "C19.line-starts-with-task-name")
		rt.Assert(wr[len(wr)-2:] == "\r\n", "C19.line-is-terminated")
		payload := []byte(wr[len(prefix) : len(wr)-2])
		for _, b := range payload {
			rt.Assert(b != '\n', "C19.no-LF-inside-payload")
		}
		got = append(got, payload...)
	}
	wantSeq, wantN := c19Kept(input)
	gotSeq, gotN := c19Kept(got)
	same := wantN == gotN
	for k := 0; k < len(wantSeq) || k < len(gotSeq); k++ {
		a, b := -1, -1
		if k < len(wantSeq) {
			a = wantSeq[k]
		}
		if k < len(gotSeq) {
			b = gotSeq[k]
		}
		same = rt.And(same, a == b)
	}
	rt.Assert(same, "C19.nothing-lost-duplicated-reordered")
	if len(sink.writes) >= 2 {
		rt.Cover("C19.several-lines")
	}
	if len(sink.writes) > nw {
		rt.Cover("C19.more-lines-than-writes")
	}
}

// VerifC19Raw: the raw decorator forwards the same bytes in the same calls.
func VerifC19Raw(nw, maxb, part int) {
	sink := &c19Sink{}
	d := newRawOutputWriter(sink)
	rt.Assert(d.WriteHeader() == nil, "C19.raw-header-ok")
	var want []string
	for w := 0; w < nw; w++ {
		p := c19Chunk(w, part%(maxb+1), 1)
		part /= maxb + 1
		want = append(want, string(p))
		n, err := d.Write(p)
		rt.Assert(rt.And(err == nil, n == len(p)), "C19.raw-write-accepts-all-bytes")
	}
	rt.Assert(d.WriteFooter() == nil, "C19.raw-footer-ok")
	rt.Assert(len(sink.writes) == len(want), "C19.raw-same-number-of-writes")
	if len(sink.writes) == len(want) {
		for i := range want {
			rt.Assert(sink.writes[i] == want[i], "C19.raw-bytes-unchanged")
		}
		rt.Cover("C19.raw-forwarded")
	}
}

// VerifC19Long: one line of n bytes (n around bufio.Writer's 4096-byte buffer and up to the
// 10000 bytes of the property's quantifier) in one Write call, optionally after a short
// unterminated chunk and optionally terminated. The filler is a concrete letter; the first, a
// middle and the last byte are symbolic (any byte that is not CR, LF, ESC or 0xC2).
func VerifC19Long(n int) {
	rt.Unwind(20000)
	t := &task.Task{Name: "tk"}
	sink := &c19Sink{}
	d := newPrefixedOutputWriter(t, sink)
	p := make([]byte, n)
	for i := range p {
		p[i] = 'x'
	}
	for k, pos := range []int{0, n / 2, n - 1} {
		b := rt.Uint8("long." + c19Digits[k])
		rt.Assume(rt.And(b != 0x1b, b != 0xc2, b != '\r', b != '\n'))
		p[pos] = b
	}
	want := ""
	if rt.Bool("short-chunk-first") {
		d.Write([]byte("hd"))
		want = "hd"
	}
	want += string(p)
	if rt.Bool("terminated") {
		p = append(p, '\n')
	}
	wn, err := d.Write(p)
	rt.Assert(rt.And(err == nil, wn == len(p)), "C19.write-accepts-all-bytes")
	rt.Assert(d.WriteFooter() == nil, "C19.footer-ok")
	const prefix = "tk: "
	got := ""
	for _, wr := range sink.writes {
		// concurrent tasks share the destination and nothing serialises them but the destination's
		// Write: a line must arrive there in ONE call, prefix and terminator included
		ok := len(wr) >= len(prefix)+2
		rt.Assert(ok, "C19.line-has-prefix-and-terminator")
		if !ok {
			return
		}
		rt.Assert(wr[:len(prefix)] == prefix, "C19.line-starts-with-task-name")
		rt.Assert(wr[len(wr)-2:] == "\r\n", "C19.line-is-terminated")
		got += wr[len(prefix) : len(wr)-2]
	}
	rt.Assert(got == want, "C19.long-line-nothing-lost-duplicated-reordered")
	rt.Cover("C19.long-line-checked")
}

var c19Segs = []string{"a", "\x1b[32m", "\n", "b\x1b[0m", "\x1b[1;31mc", "\r\n"}

// VerifC19Ansi: streams with ANSI escape sequences. The stream is three segments, each a symbolic
// choice among plain text, colour sequences and line ends (216 streams), written in two calls split
// at every position (also inside a sequence), then the footer. With concrete bytes the engine hands
// ansiRegexp to the real regexp package.
func VerifC19Ansi() {
	rt.Unwind(2000)
	t := &task.Task{Name: "tk"}
	sink := &c19Sink{}
	d := newPrefixedOutputWriter(t, sink)
	stream := ""
	// [from, to) of every escape sequence in the stream
	var seqs [][2]int
	for k := 0; k < 3; k++ {
		sg := rt.Concrete(rt.Choice("segment."+c19Digits[k], len(c19Segs)))
		switch sg {
		case 1:
			seqs = append(seqs, [2]int{len(stream), len(stream) + 5})
		case 3:
			seqs = append(seqs, [2]int{len(stream) + 1, len(stream) + 5})
		case 4:
			seqs = append(seqs, [2]int{len(stream), len(stream) + 7})
		}
		stream += c19Segs[sg]
	}
	in := []byte(stream)
	cut := rt.Concrete(rt.Choice("cut", len(in)+1))
	for _, q := range seqs {
		if q[0] < cut && cut < q[1] {
			// classification of the known finding: the two Write calls split an escape sequence
			rt.Tag("an-escape-sequence-is-split-between-two-write-calls")
		}
	}
	for _, p := range [][]byte{in[:cut], in[cut:]} {
		n, err := d.Write(p)
		rt.Assert(rt.And(err == nil, n == len(p)), "C19.write-accepts-all-bytes")
	}
	rt.Assert(d.WriteFooter() == nil, "C19.footer-ok")
	const prefix = "tk: "
	var got []byte
	for _, wr := range sink.writes {
		ok := len(wr) >= len(prefix)+2
		rt.Assert(ok, "C19.line-has-prefix-and-terminator")
		if !ok {
			return
		}
		rt.Assert(wr[:len(prefix)] == prefix, "C19.line-starts-with-task-name")
		rt.Assert(wr[len(wr)-2:] == "\r\n", "C19.line-is-terminated")
		got = append(got, wr[len(prefix):len(wr)-2]...)
	}
	strip := func(b []byte) string {
		out := ""
		for _, c := range ansiRegexp.ReplaceAllLiteral(b, []byte{}) {
			if c != '\r' && c != '\n' {
				out += string(rune(c))
			}
		}
		return out
	}
	rt.Assert(strip(got) == strip(in), "C19.ansi-nothing-lost-duplicated-reordered")
	rt.Cover("C19.ansi-checked")
}
