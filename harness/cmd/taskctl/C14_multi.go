//go:build verif

package main

import (
	"context"

	"github.com/urfave/cli/v2"

	"github.com/taskctl/taskctl/internal/config"
	rt "github.com/taskctl/taskctl/internal/verifrt"
	"github.com/taskctl/taskctl/pkg/executor"
	"github.com/taskctl/taskctl/pkg/runner"
	"github.com/taskctl/taskctl/pkg/scheduler"
	"github.com/taskctl/taskctl/pkg/task"
	"github.com/taskctl/taskctl/pkg/variables"
	"mvdan.cc/sh/v3/interp"
)

// C14 through the CLI with SEVERAL targets sharing one execution context: `down` must run exactly
// once, after all of them (whether they succeed or fail), `up` once before everything.

var c14mCmds []string

func c14mExecute(e *executor.DefaultExecutor, ctx context.Context, job *executor.Job) ([]byte, error) {
	k := len(c14mCmds)
	c14mCmds = append(c14mCmds, job.Command)
	if job.Command == "t1-cmd" || job.Command == "t2-cmd" {
		if rt.Bool("fails." + job.Command + "." + vDigits[k]) {
			return nil, interp.NewExitStatus(1)
		}
	}
	return nil, nil
}
func c14mNewExecutor(stdin interface{}, stdout, stderr interface{}) (*executor.DefaultExecutor, error) {
	return &executor.DefaultExecutor{}, nil
}
func c14mRender(t string, m map[string]interface{}) (string, error) { return t, nil }

// mode 0: `taskctl a b`, 1: `taskctl run a b`, 2: `taskctl run task a b`; second target kind: 0 task t2, 1 pipeline p1 (runs t2)
func VerifC14CLIMulti(mode, second int) {
	vInstallCLI()
	rt.Redirect("github.com/taskctl/taskctl/cmd/taskctl.runTask", nil)
	rt.Redirect("github.com/taskctl/taskctl/cmd/taskctl.runPipeline", nil)
	rt.Redirect("(*github.com/taskctl/taskctl/pkg/executor.DefaultExecutor).Execute", c14mExecute)
	rt.Redirect("github.com/taskctl/taskctl/pkg/executor.NewDefaultExecutor", c14mNewExecutor)
	rt.Redirect("github.com/taskctl/taskctl/pkg/utils.RenderString", c14mRender)
	c14mCmds = nil
	cfg = config.NewConfig()
	cfg.Output = "raw"
	cfg.Contexts["ctx"] = runner.NewExecutionContext(nil, "", variables.NewVariables(), []string{"up0"}, []string{"down0"}, nil, nil)
	t1 := task.FromCommands("t1-cmd")
	t1.Name, t1.Context = "t1", "ctx"
	t2 := task.FromCommands("t2-cmd")
	t2.Name, t2.Context = "t2", "ctx"
	cfg.Tasks["t1"], cfg.Tasks["t2"] = t1, t2
	g, _ := scheduler.NewExecutionGraph(&scheduler.Stage{Name: "s", Task: t2})
	cfg.Pipelines["p1"] = g
	secondName := "t2"
	if second == 1 {
		rt.Assume(mode != 2)
		secondName = "p1"
	}
	vArgv = vArgs{"t1", secondName}
	c := &cli.Context{}
	var err error
	switch mode {
	case 0:
		err = rootAction(c)
	case 1:
		cmd := newRunCommand()
		rt.Assert(cmd.Before(c) == nil, "C14.multi.before-ok")
		err = cmd.Action(c)
	default:
		cmd := newRunCommand()
		rt.Assert(cmd.Before(c) == nil, "C14.multi.before-ok")
		err = cmd.Subcommands[0].Action(c)
	}
	_ = err
	ups, downs, lastTask := 0, 0, -1
	downAt := -1
	for i, cm := range c14mCmds {
		switch cm {
		case "up0":
			ups++
			rt.Assert(i == 0, "C14.cli-up-runs-before-every-task-command")
		case "down0":
			downs++
			downAt = i
		default:
			lastTask = i
		}
	}
	rt.Assert(ups == 1, "C14.cli-up-runs-exactly-once-for-several-targets")
	rt.Assert(downs == 1, "C14.cli-down-runs-exactly-once-for-several-targets")
	rt.Assert(downAt > lastTask, "C14.cli-down-runs-after-all-targets")
	if lastTask >= 2 {
		rt.Cover("C14.cli-two-targets-ran")
	}
	rt.Cover("C14.cli-multi-checked")
}
