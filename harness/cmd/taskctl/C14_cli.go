//go:build verif

package main

import (
	"github.com/urfave/cli/v2"

	rt "github.com/taskctl/taskctl/internal/verifrt"
	"github.com/taskctl/taskctl/pkg/runner"
	"github.com/taskctl/taskctl/pkg/scheduler"
	"github.com/taskctl/taskctl/pkg/task"
)

// The CLI must shut contexts down (TaskRunner.Finish -> down) whether the target succeeded or failed.

var c14Finished int
var c14Fails bool

func c14Run(r *runner.TaskRunner, t *task.Task) error {
	if c14Fails {
		return rt.ErrorNew("task failed")
	}
	return nil
}
func c14Finish(r *runner.TaskRunner) { c14Finished++ }
func c14Schedule(s *scheduler.Scheduler, g *scheduler.ExecutionGraph) error {
	if c14Fails {
		return rt.ErrorNew("pipeline failed")
	}
	return nil
}

func VerifC14CLI(pipeline int) {
	vInstallCLI()
	rt.Redirect("github.com/taskctl/taskctl/cmd/taskctl.runTask", nil)
	rt.Redirect("github.com/taskctl/taskctl/cmd/taskctl.runPipeline", nil)
	c14Finished = 0
	c14Fails = rt.Bool("target-fails")
	rt.Redirect("(*github.com/taskctl/taskctl/pkg/runner.TaskRunner).Run", c14Run)
	rt.Redirect("(*github.com/taskctl/taskctl/pkg/runner.TaskRunner).Finish", c14Finish)
	rt.Redirect("(*github.com/taskctl/taskctl/pkg/scheduler.Scheduler).Schedule", c14Schedule)
	vConfig()
	if pipeline == 1 {
		vArgv = vArgs{"p1"}
	} else {
		vArgv = vArgs{"t1"}
	}
	err := rootAction(&cli.Context{})
	rt.Assert((err != nil) == c14Fails, "C14.cli-propagates-the-result")
	rt.Assert(c14Finished == 1, "C14.cli-shuts-contexts-down-whether-the-target-succeeded-or-failed")
	rt.Cover("C14.cli-checked")
}
