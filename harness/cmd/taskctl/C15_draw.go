//go:build verif

package main

import (
	"github.com/emicklei/dot"

	"github.com/taskctl/taskctl/internal/config"
	rt "github.com/taskctl/taskctl/internal/verifrt"
)

// The real draw() of the graph command on every accepted inclusion structure of
// config.VerifC15DrawCfg. The dot library is replaced by counting stubs: drawing a pipeline makes
// one cluster per included pipeline, so with two pipelines of two stages each an acyclic structure
// needs at most 2 + 2*2 clusters; more means draw recurses without end (the process would die
// with a stack overflow).

var c15Clusters int

func c15Subgraph(g *dot.Graph, id string, options ...dot.GraphOption) *dot.Graph {
	c15Clusters++
	if c15Clusters > 12 {
		rt.Assert(false, "C15.graph-command-does-not-recurse-for-ever-on-a-loaded-configuration")
		rt.Stop()
	}
	return &dot.Graph{}
}
func c15Node(g *dot.Graph, id string) dot.Node                          { return dot.Node{} }
func c15Edge(g *dot.Graph, from, to dot.Node, labels ...string) dot.Edge { return dot.Edge{} }

func VerifC15Draw() {
	rt.Redirect("(*github.com/emicklei/dot.Graph).Subgraph", c15Subgraph)
	rt.Redirect("(*github.com/emicklei/dot.Graph).Node", c15Node)
	rt.Redirect("(*github.com/emicklei/dot.Graph).Edge", c15Edge)
	c, err := config.VerifC15DrawCfg()
	rt.Assert(true, "C15.draw.building-ended-without-a-crash")
	if err != nil {
		rt.Cover("C15.draw.structure-rejected")
		return
	}
	rt.Cover("C15.draw.structure-accepted")
	for _, name := range []string{"p1", "p2"} {
		c15Clusters = 0
		draw(&dot.Graph{}, c.Pipelines[name])
	}
	rt.Assert(true, "C15.draw.graph-command-ended-without-a-crash")
	rt.Cover("C15.draw-checked")
}
