//go:build verif

package main

import (
	"github.com/urfave/cli/v2"

	"github.com/taskctl/taskctl/internal/config"
	rt "github.com/taskctl/taskctl/internal/verifrt"
	"github.com/taskctl/taskctl/pkg/scheduler"
	"github.com/taskctl/taskctl/pkg/task"
	"github.com/taskctl/taskctl/pkg/variables"
)

var c10Values = []string{"a", "m", "z", ""}
var c10Levels = []string{"config", "set", "task", "stage"}

type c10Render struct {
	HasX     bool
	X        interface{}
	HasArgs  bool
	Args     interface{}
	HasList  bool
	List     interface{}
	HasTemp  bool
	Rendered bool
}

var c10Renders []c10Render
var c10Cfg *config.Config

const c10Cmd = "cmd {{.X}}"

// c10RenderStub models text/template for the single-reference command template:
// the value if the key is present, an error otherwise (missingkey=error).
func c10RenderStub(tmpl string, m map[string]interface{}) (string, error) {
	if tmpl != c10Cmd {
		return tmpl, nil
	}
	var r c10Render
	r.X, r.HasX = m["X"]
	r.Args, r.HasArgs = m["Args"]
	r.List, r.HasList = m["ArgsList"]
	_, r.HasTemp = m["TempDir"]
	if !r.HasX {
		c10Renders = append(c10Renders, r)
		return "", rt.ErrorNew("map has no entry for key X")
	}
	r.Rendered = true
	c10Renders = append(c10Renders, r)
	s, _ := r.X.(string)
	return "cmd " + s, nil
}

func c10Load(cl *config.Loader, file string) (*config.Config, error) { return c10Cfg, nil }
func c10String(c *cli.Context, n string) string                       { return "" }
func c10IsSet(c *cli.Context, n string) bool                          { return false }

func c10Install() {
	vInstallCLI()
	vInstallExecStubs()
	c10Renders = nil
	rt.Redirect("github.com/taskctl/taskctl/pkg/utils.RenderString", c10RenderStub)
	rt.Redirect("(*github.com/taskctl/taskctl/internal/config.Loader).Load", c10Load)
	rt.Redirect("(*github.com/urfave/cli/v2.Context).String", c10String)
	rt.Redirect("(*github.com/urfave/cli/v2.Context).IsSet", c10IsSet)
	// the real runTask / runPipeline are wanted here
	rt.Redirect("github.com/taskctl/taskctl/cmd/taskctl.runTask", nil)
	rt.Redirect("github.com/taskctl/taskctl/cmd/taskctl.runPipeline", nil)
}

// VerifC10Vars: one template variable X defined at the levels in mask (bit 0
// configuration, 1 --set, 2 task, 3 stage). The application's Before hook, the
// root action, buildTaskRunner, runTask/runPipeline, TaskRunner.Run, the
// compiler and DefaultExecutor.Execute are real; the template engine is the
// stub above and records the variable map each command is rendered with.
func VerifC10Vars(mask, viaStage int) {
	c10Install()
	val := make([]string, 4)
	has := make([]bool, 4)
	for l := 0; l < 4; l++ {
		has[l] = mask&(1<<l) != 0
		if has[l] {
			val[l] = rt.OneOf("value."+c10Levels[l], c10Values...)
		}
	}
	c10Cfg = config.NewConfig()
	c10Cfg.Output = "raw"
	if has[0] {
		c10Cfg.Variables.Set("X", val[0])
	}
	vSet = nil
	if has[1] {
		vSet = []string{"X=" + val[1]}
	}
	t := task.FromCommands(c10Cmd)
	t.Name = "t1"
	if has[2] {
		t.Variables = variables.FromMap(map[string]string{"X": val[2]})
	}
	c10Cfg.Tasks["t1"] = t
	second := false
	if viaStage == 1 {
		// every stage gets its own (shallow) copy of the task, as the configuration builder makes it
		tc1 := *t
		st := &scheduler.Stage{Name: "s1", Task: &tc1, Env: variables.NewVariables(), Variables: variables.NewVariables()}
		if has[3] {
			st.Variables = variables.FromMap(map[string]string{"X": val[3]})
		}
		stages := []*scheduler.Stage{st}
		// optionally a second stage of the same task, after the first, that sets nothing at stage level:
		// for it the stage level is absent
		if has[3] && rt.Bool("a-second-stage-of-the-same-task-without-stage-variables") {
			second = true
			tc2 := *t
			stages = append(stages, &scheduler.Stage{Name: "s2", Task: &tc2, DependsOn: []string{"s1"}, Env: variables.NewVariables(), Variables: variables.NewVariables()})
		}
		g, err := scheduler.NewExecutionGraph(stages...)
		rt.Assert(err == nil, "C10.graph-built")
		c10Cfg.Pipelines["p1"] = g
		vArgv = vArgs{"p1"}
	} else {
		rt.Assume(!has[3])
		vArgv = vArgs{"t1"}
	}
	app := makeApp()
	c := &cli.Context{App: app}
	rt.Assert(app.Before(c) == nil, "C10.before-hook-ok")
	err := rootAction(c)

	want, defined := "", false
	for l := 0; l < 4; l++ {
		if has[l] {
			want, defined = val[l], true
		}
	}
	if second {
		rt.Assert(len(c10Renders) == 2, "C10.command-rendered-once-per-stage")
		if len(c10Renders) != 2 {
			return
		}
		w2, d2 := "", false
		for l := 0; l < 3; l++ {
			if has[l] {
				w2, d2 = val[l], true
			}
		}
		r2 := c10Renders[1]
		rt.Assert(r2.HasX == d2, "C10.second-stage.variable-defined-iff-a-level-below-the-stage-defines-it")
		if d2 && r2.HasX {
			got2, _ := r2.X.(string)
			rt.Assert(got2 == w2, "C10.second-stage.another-stage's-value-is-not-this-stage's")
		}
		rt.Assert((err != nil) == !d2, "C10.second-stage.run-fails-iff-its-variable-is-undefined")
		rt.Cover("C10.two-stages-of-one-task")
		return
	}
	rt.Assert(len(c10Renders) == 1, "C10.command-rendered-once")
	if len(c10Renders) != 1 {
		return
	}
	r := c10Renders[0]
	rt.Assert(r.HasX == defined, "C10.variable-defined-iff-some-level-defines-it")
	if defined && r.HasX {
		got, _ := r.X.(string)
		rt.Observe("seen.X", got)
		rt.Observe("want.X", want)
		rt.Assert(got == want, "C10.highest-level-wins")
		rt.Assert(rt.And(err == nil, len(vInterpRuns) == 1), "C10.defined-variable-command-runs")
		rt.Cover("C10.rendered")
	}
	if !r.HasX {
		rt.Assert(err != nil, "C10.undefined-variable-fails-the-task")
		rt.Assert(len(vInterpRuns) == 0, "C10.undefined-variable-command-never-executes")
		rt.Cover("C10.undefined")
	}
	rt.Assert(rt.And(r.HasArgs, r.HasList, r.HasTemp), "C10.builtins-always-defined")
	if mask&(mask-1) != 0 {
		rt.Cover("C10.two-levels")
	}
}

var c10Words = []string{"--", "t1", "-x", "a=b", "w"}

// VerifC10Args: argv = t1 followed by n symbolic words; everything after the
// first "--" must arrive verbatim and in order as .Args, .ArgsList and $ARGS,
// and nothing at or after it may run as a target.
func VerifC10Args(n int) {
	c10Install()
	vExtraProbe = "ARGS"
	c10Cfg = config.NewConfig()
	c10Cfg.Output = "raw"
	c10Cfg.Variables.Set("X", "x")
	t := task.FromCommands(c10Cmd)
	t.Name = "t1"
	c10Cfg.Tasks["t1"] = t
	vArgv = vArgs{"t1"}
	for i := 0; i < n; i++ {
		vArgv = append(vArgv, rt.OneOf("word."+vDigits[i], c10Words...))
	}
	app := makeApp()
	c := &cli.Context{App: app}
	rt.Assert(app.Before(c) == nil, "C10.before-hook-ok")
	rootAction(c)

	// reference: words after the first "--"; targets before it
	var after []string
	targets := 0
	seenDash := false
	for _, w := range vArgv {
		if seenDash {
			after = append(after, w)
		} else if w == "--" {
			seenDash = true
		} else {
			targets++
		}
	}
	joined := ""
	for i, w := range after {
		if i > 0 {
			joined += " "
		}
		joined += w
	}
	// a word before "--" that is not a known target stops the run (C07); compare only when something ran
	if len(c10Renders) == 0 {
		return
	}
	rt.Cover("C10.args-checked")
	r := c10Renders[0]
	args, _ := r.Args.(string)
	rt.Observe("seen.Args", args)
	rt.Observe("want.Args", joined)
	rt.Assert(args == joined, "C10.Args-is-everything-after-first-dashdash")
	list, _ := r.List.([]string)
	rt.Assert(len(list) == len(after), "C10.ArgsList-length")
	if len(list) == len(after) {
		for i := range after {
			rt.Assert(list[i] == after[i], "C10.ArgsList-verbatim-in-order")
		}
	}
	rt.Assert(len(vInterpRuns) >= 1, "C10.command-ran")
	if len(vInterpRuns) >= 1 {
		rt.Assert(vInterpRuns[0].Extra == joined, "C10.ARGS-env-is-everything-after-first-dashdash")
	}
	// the task may be named again before "--" (it then runs again); nothing after "--" runs
	ran := 0
	for _, w := range vArgv {
		if w == "--" {
			break
		}
		if w == "t1" {
			ran++
		} else {
			break
		}
	}
	rt.Assert(len(c10Renders) == ran, "C10.words-after-dashdash-are-not-targets")
	if len(after) >= 2 {
		rt.Cover("C10.two-args")
	}
}
