//go:build verif

package main

// Stubs shared by the CLI-level harnesses: a harness-backed argument vector
// behind cli.Context, and recording stand-ins for runTask / runPipeline.

import (
	"github.com/urfave/cli/v2"

	rt "github.com/taskctl/taskctl/internal/verifrt"
	"github.com/taskctl/taskctl/internal/config"
	"github.com/taskctl/taskctl/pkg/runner"
	"github.com/taskctl/taskctl/pkg/scheduler"
	"github.com/taskctl/taskctl/pkg/task"
)

type vArgs []string

func (a vArgs) Get(n int) string {
	if len(a) > n {
		return a[n]
	}
	return ""
}
func (a vArgs) First() string { return a.Get(0) }
func (a vArgs) Tail() []string {
	if len(a) >= 2 {
		return a[1:]
	}
	return []string{}
}
func (a vArgs) Len() int        { return len(a) }
func (a vArgs) Present() bool   { return len(a) != 0 }
func (a vArgs) Slice() []string { return append([]string{}, a...) }

var vArgv vArgs
var vSet []string
var vDigits = []string{"0", "1", "2", "3", "4", "5", "6", "7"}

type vRun struct {
	Name     string
	Pipeline bool
	Failed   bool
}

var vRuns []vRun

func vCtxArgs(c *cli.Context) cli.Args               { return vArgv }
func vCtxNArg(c *cli.Context) int                    { return len(vArgv) }
func vCtxBool(c *cli.Context, name string) bool      { return false }
func vCtxStringSlice(c *cli.Context, n string) []string { return vSet }

func vRunTask(t *task.Task, r *runner.TaskRunner) error {
	k := len(vRuns)
	fail := rt.Bool("target-fails." + vDigits[k])
	vRuns = append(vRuns, vRun{Name: t.Name, Failed: fail})
	if fail {
		return rt.ErrorNew("task failed")
	}
	return nil
}

func vRunPipeline(g *scheduler.ExecutionGraph, r *runner.TaskRunner, summary bool) error {
	k := len(vRuns)
	fail := rt.Bool("target-fails." + vDigits[k])
	name := "?"
	for n, p := range cfg.Pipelines {
		if p == g {
			name = n
		}
	}
	vRuns = append(vRuns, vRun{Name: name, Pipeline: true, Failed: fail})
	if fail {
		return rt.ErrorNew("pipeline failed")
	}
	return nil
}

func vInstallCLI() {
	vRuns = nil
	rt.Redirect("(*github.com/urfave/cli/v2.Context).Args", vCtxArgs)
	rt.Redirect("(*github.com/urfave/cli/v2.Context).NArg", vCtxNArg)
	rt.Redirect("(*github.com/urfave/cli/v2.Context).Bool", vCtxBool)
	rt.Redirect("(*github.com/urfave/cli/v2.Context).StringSlice", vCtxStringSlice)
	rt.Redirect("github.com/taskctl/taskctl/cmd/taskctl.runTask", vRunTask)
	rt.Redirect("github.com/taskctl/taskctl/cmd/taskctl.runPipeline", vRunPipeline)
}

// vConfig: tasks t1, t2 and pipeline p1.
func vConfig() {
	cfg = config.NewConfig()
	t1 := task.FromCommands("true")
	t1.Name = "t1"
	t2 := task.FromCommands("true")
	t2.Name = "t2"
	cfg.Tasks["t1"] = t1
	cfg.Tasks["t2"] = t2
	g, _ := scheduler.NewExecutionGraph()
	cfg.Pipelines["p1"] = g
}
