//go:build verif

package main

import (
	"github.com/urfave/cli/v2"

	rt "github.com/taskctl/taskctl/internal/verifrt"
)

var c07Words = []string{"t1", "t2", "p1", "zz", "--"}

// c07Expect computes, from the symbolic argument vector and the recorded
// target outcomes, which targets must have run and whether the action must fail.
// mode 0: root action / `run`; mode 1: `run task` (pipelines are unknown targets there).
func c07Check(err error, mode int, label string) {
	var want []string
	mustFail := false
	k := 0
	for _, w := range vArgv {
		if w == "--" {
			break
		}
		isTask := w == "t1" || w == "t2"
		isPipe := w == "p1" && mode == 0
		if !isTask && !isPipe {
			mustFail = true
			break
		}
		want = append(want, w)
		failed := false
		if k < len(vRuns) {
			failed = vRuns[k].Failed
		}
		k++
		if failed {
			mustFail = true
			break
		}
	}
	rt.Assert(len(vRuns) == len(want), label+".targets-run-count")
	if len(vRuns) == len(want) {
		for i := range want {
			rt.Assert(vRuns[i].Name == want[i], label+".targets-run-in-order")
		}
	}
	rt.Assert((err != nil) == mustFail, label+".error-iff-a-target-failed")
	if mustFail {
		rt.Cover("C07.cli-failure")
	} else {
		rt.Cover("C07.cli-success")
	}
	if len(vRuns) >= 2 {
		rt.Cover("C07.cli-two-targets")
	}
}

func c07Argv(n int) {
	vArgv = make(vArgs, n)
	for i := 0; i < n; i++ {
		vArgv[i] = rt.OneOf("arg."+vDigits[i], c07Words...)
	}
}

// VerifC07Root: `taskctl <targets...> [-- args]`.
func VerifC07Root(n int) {
	vInstallCLI()
	vConfig()
	c07Argv(n)
	rt.Assume(n > 0)
	err := rootAction(&cli.Context{})
	c07Check(err, 0, "C07.root")
}

// VerifC07Run: `taskctl run <targets...>`.
func VerifC07Run(n int) {
	vInstallCLI()
	vConfig()
	c07Argv(n)
	cmd := newRunCommand()
	c := &cli.Context{}
	rt.Assert(cmd.Before(c) == nil, "C07.run.before-ok")
	err := cmd.Action(c)
	if n == 0 {
		rt.Assert(err != nil, "C07.run.no-target-is-an-error")
		return
	}
	c07Check(err, 0, "C07.run")
}

// VerifC07RunTask: `taskctl run task <tasks...>`.
func VerifC07RunTask(n int) {
	vInstallCLI()
	vConfig()
	c07Argv(n)
	cmd := newRunCommand()
	c := &cli.Context{}
	rt.Assert(cmd.Before(c) == nil, "C07.runtask.before-ok")
	err := cmd.Subcommands[0].Action(c)
	c07Check(err, 1, "C07.runtask")
}

func c07RunStub() error {
	if rt.Bool("run-fails") {
		return rt.ErrorNew("a target failed")
	}
	return nil
}

// VerifC07Main: the process exits abnormally (logrus.Fatal => exit status 1) iff run() failed.
func VerifC07Main() {
	rt.Redirect("github.com/taskctl/taskctl/cmd/taskctl.run", c07RunStub)
	rt.ExpectAbortIf("run-fails", "C07.main-exits-nonzero-on-failure")
	main()
	rt.Cover("C07.main-returns-normally-on-success")
}
