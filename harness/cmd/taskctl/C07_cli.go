//go:build verif

package main

import (
	"github.com/urfave/cli/v2"

	rt "github.com/taskctl/taskctl/internal/verifrt"
	"github.com/taskctl/taskctl/pkg/runner"
	"github.com/taskctl/taskctl/pkg/scheduler"
	"github.com/taskctl/taskctl/pkg/task"
)

// deep = 1: runTask / runPipeline themselves are executed; the recording stand-ins sit one level
// lower (TaskRunner.Run, Scheduler.Schedule) and the --summary flag and the configuration's
// `summary:` setting are symbolic.
var c07Summary bool

func c07TaskRun(r *runner.TaskRunner, t *task.Task) error        { return vRunTask(t, r) }
func c07Schedule(s *scheduler.Scheduler, g *scheduler.ExecutionGraph) error {
	return vRunPipeline(g, nil, false)
}
func c07Bool(c *cli.Context, name string) bool {
	if name == "summary" {
		return c07Summary
	}
	return false
}
func c07PrintSummary(g *scheduler.ExecutionGraph) {}
func c07Finish(r *runner.TaskRunner)               {}

func c07Deep(deep int) {
	if deep != 1 {
		return
	}
	rt.Redirect("github.com/taskctl/taskctl/cmd/taskctl.runTask", nil)
	rt.Redirect("github.com/taskctl/taskctl/cmd/taskctl.runPipeline", nil)
	rt.Redirect("(*github.com/taskctl/taskctl/pkg/runner.TaskRunner).Run", c07TaskRun)
	rt.Redirect("(*github.com/taskctl/taskctl/pkg/runner.TaskRunner).Finish", c07Finish)
	rt.Redirect("(*github.com/taskctl/taskctl/pkg/scheduler.Scheduler).Schedule", c07Schedule)
	rt.Redirect("github.com/taskctl/taskctl/cmd/taskctl.printSummary", c07PrintSummary)
	rt.Redirect("(*github.com/urfave/cli/v2.Context).Bool", c07Bool)
	c07Summary = rt.Bool("flag.summary")
	cfg.Summary = rt.Bool("config.summary")
}

var c07Words = []string{"t1", "t2", "p1", "zz", "--"}

// c07Expect computes, from the symbolic argument vector and the recorded
// target outcomes, which targets must have run and whether the action must fail.
// mode 0: root action / `run`; mode 1: `run task` (pipelines are unknown targets there).
func c07Check(err error, mode int, label string) {
	var want []string
	mustFail := false
	k := 0
	for _, w := range vArgv {
		if w == "--" {
			break
		}
		isTask := w == "t1" || w == "t2"
		isPipe := w == "p1" && mode == 0
		if !isTask && !isPipe {
			mustFail = true
			break
		}
		want = append(want, w)
		failed := false
		if k < len(vRuns) {
			failed = vRuns[k].Failed
		}
		k++
		if failed {
			mustFail = true
			break
		}
	}
	rt.Assert(len(vRuns) == len(want), label+".targets-run-count")
	if len(vRuns) == len(want) {
		for i := range want {
			rt.Assert(vRuns[i].Name == want[i], label+".targets-run-in-order")
		}
	}
	rt.Assert((err != nil) == mustFail, label+".error-iff-a-target-failed")
	if mustFail {
		rt.Cover("C07.cli-failure")
	} else {
		rt.Cover("C07.cli-success")
	}
	if len(vRuns) >= 2 {
		rt.Cover("C07.cli-two-targets")
	}
}

func c07Argv(n int) {
	vArgv = make(vArgs, n)
	for i := 0; i < n; i++ {
		vArgv[i] = rt.OneOf("arg."+vDigits[i], c07Words...)
	}
}

// VerifC07Root: `taskctl <targets...> [-- args]`.
func VerifC07Root(n, deep int) {
	vInstallCLI()
	vConfig()
	c07Deep(deep)
	c07Argv(n)
	rt.Assume(n > 0)
	err := rootAction(&cli.Context{})
	c07Check(err, 0, "C07.root")
}

// VerifC07Run: `taskctl run <targets...>`.
func VerifC07Run(n, deep int) {
	vInstallCLI()
	vConfig()
	c07Deep(deep)
	c07Argv(n)
	cmd := newRunCommand()
	c := &cli.Context{}
	rt.Assert(cmd.Before(c) == nil, "C07.run.before-ok")
	err := cmd.Action(c)
	if n == 0 {
		rt.Assert(err != nil, "C07.run.no-target-is-an-error")
		return
	}
	c07Check(err, 0, "C07.run")
}

// VerifC07RunTask: `taskctl run task <tasks...>`.
func VerifC07RunTask(n, deep int) {
	vInstallCLI()
	vConfig()
	c07Deep(deep)
	c07Argv(n)
	cmd := newRunCommand()
	c := &cli.Context{}
	rt.Assert(cmd.Before(c) == nil, "C07.runtask.before-ok")
	err := cmd.Subcommands[0].Action(c)
	c07Check(err, 1, "C07.runtask")
}

func c07RunStub() error {
	if rt.Bool("run-fails") {
		return rt.ErrorNew("a target failed")
	}
	return nil
}

// VerifC07Main: the process exits abnormally (logrus.Fatal => exit status 1) iff run() failed.
func VerifC07Main() {
	rt.Redirect("github.com/taskctl/taskctl/cmd/taskctl.run", c07RunStub)
	rt.ExpectAbortIf("run-fails", "C07.main-exits-nonzero-on-failure")
	main()
	rt.Cover("C07.main-returns-normally-on-success")
}
