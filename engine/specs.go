package main

import "time"

// PropSpec describes how one property is checked.
type PropSpec struct {
	ID          string
	Jobs        func(tier string) []*Job
	Covers      []string
	Bounds      map[string]interface{}
	Outside     []string
	Assumptions []string
	Replay      map[string]*ReplaySpec
	Harness     []string // harness file prefixes (default: the property id)
	WitnessReplay int // number of passing-path witnesses replayed natively per run (0 = none)
	AttributeByReplay bool // violations labelled for a sibling property count here iff the native replay shows this property's oracle failing
	solverDesc  string
}

const (
	pkgScheduler = modulePath + "/pkg/scheduler"
	pkgRunner    = modulePath + "/pkg/runner"
	pkgConfig    = modulePath + "/internal/config"
	pkgOutput    = modulePath + "/pkg/output"
	pkgExecutor  = modulePath + "/pkg/executor"
	pkgWatch     = modulePath + "/internal/watch"
	pkgMain      = modulePath + "/cmd/taskctl"
)

// maxWitnesses: how many witnesses of one signature are replayed before giving up.
func (s *PropSpec) maxWitnesses() int {
	if s.AttributeByReplay {
		return 2 // the scheduler replay is itself a search over graphs and completion orders
	}
	return 6
}

var specs = map[string]*PropSpec{}

func register(s *PropSpec) {
	if s.WitnessReplay == 0 {
		s.WitnessReplay = 4
	}
	specs[s.ID] = s
}

func init() {
	register(&PropSpec{
		ID: "C05",
		Jobs: func(tier string) []*Job {
			mk := func(n, d int64) (js []*Job) {
				parts := int64(1)
				for i := int64(0); i < n; i++ {
					parts *= d + 1
				}
				for p := int64(0); p < parts; p++ {
					js = append(js, &Job{Pkg: pkgScheduler, Func: "VerifC05Graph", Args: []int64{n, d, p}, Timeout: 60 * time.Minute})
				}
				return
			}
			if tier == "thorough" {
				// (N=4 with up to 3 entries per stage and N=5 with up to 2 did not finish within 50 minutes: not registered)
				return append(append(mk(4, 2), mk(3, 3)...), mk(5, 1)...)
			}
			return mk(4, 2)
		},
		Covers: []string{"C05.accepted", "C05.rejected", "C05.diamond"},
		Bounds: map[string]interface{}{
			"quick":    "N=4 stages, each with 0..2 depends_on entries drawn from all 4 names (self-loops, duplicates, forward references included); cycleDfs recursion bounded by call depth 200 (unwinding assertion)",
			"thorough": "additionally N=3 with 0..3 entries per stage and N=5 stages with 0..1 entry per stage",
		},
		Outside:     []string{"more than 4 stages / more than 3 dependencies per stage", "dangling dependency names (C18)", "stage names are the fixed labels a..d in declaration order; all graphs and all declaration orders are covered up to renaming, because dependencies range over all names including later-declared ones"},
		Assumptions: []string{"go/ssa is faithful to the compiler", "engine intrinsics: map/slice/append/errors.New semantics", "z3 4.8.12"},
		Replay:      map[string]*ReplaySpec{"*": {PkgDir: "pkg/scheduler", File: "C05_replay_test.go", Test: "TestVerifReplayC05"}},
	})

	c06jobs := func(tier string) []*Job {
		var js []*Job
		maxv := int64(2)
		if tier == "thorough" {
			maxv = 3
		}
		for nc := int64(1); nc <= 3; nc++ {
			for nv := int64(0); nv <= maxv; nv++ {
				for nb := int64(0); nb <= 2; nb++ {
					for na := int64(0); na <= 2; na++ {
						for cond := int64(0); cond <= 1; cond++ {
							if tier != "thorough" && (nb == 2 && na == 2 || nc == 3 && nv == 2 && nb+na > 1) {
								continue
							}
							js = append(js, &Job{Pkg: pkgRunner, Func: "VerifC06Task", Args: []int64{nc, nv, nb, na, cond}, Timeout: 30 * time.Minute})
						}
					}
				}
			}
		}
		return js
	}
	c06bounds := map[string]interface{}{
		"quick":    "tasks with 1..3 commands x 0..2 variations x 0..2 before x 0..2 after x condition absent/present (a few of the largest shapes only in thorough); per executed command a symbolic outcome: success, exit status (all of 1..255 at once), or - for tasks without repeated commands - a non-status error; allow_failure symbolic",
		"thorough": "all shapes with 1..3 commands x 0..3 variations x 0..2 before x 0..2 after x condition absent/present",
	}
	c06outside := []string{"that the mvdan.cc/sh interpreter runs exactly one command per Execute call and reports its status (exercised only by the native replays)", "more than 3 commands / 3 variations / 2 hooks", "template rendering (utils.RenderString stubbed as identity; commands contain no templates)", "execution-context hooks (C14)"}
	c06assume := []string{"stub: (*executor.DefaultExecutor).Execute returns an arbitrary outcome per call and records the call", "stub: executor.NewDefaultExecutor returns a dummy", "stub: utils.RenderString is the identity", "logrus calls are no-ops", "go/ssa faithful; gosym intrinsics (sync, sync.Map, context, fmt, strings, bytes.Buffer) as listed"}
	register(&PropSpec{ID: "C06", Jobs: c06jobs, Bounds: c06bounds, Outside: c06outside, Assumptions: c06assume,
		Covers: []string{"C06.skipped", "C06.command-failed", "C06.succeeded", "C06.before-failed", "C06.allowed-failure-continued"},
		Replay: map[string]*ReplaySpec{"*": {PkgDir: "pkg/runner", File: "C06_replay_test.go", Test: "TestVerifReplayC06"}}})

	c19jobs := func(tier string) []*Job {
		var js []*Job
		pref := func(nw, maxb, wide int64) {
			parts := int64(1)
			for i := int64(0); i < nw; i++ {
				parts *= maxb + 1
			}
			for p := int64(0); p < parts; p++ {
				js = append(js, &Job{Pkg: pkgOutput, Func: "VerifC19Prefixed", Args: []int64{nw, maxb, wide, p}, Timeout: 60 * time.Minute, MaxSteps: 50000000})
			}
		}
		raw := func(nw, maxb int64) {
			parts := int64(1)
			for i := int64(0); i < nw; i++ {
				parts *= maxb + 1
			}
			for p := int64(0); p < parts; p++ {
				js = append(js, &Job{Pkg: pkgOutput, Func: "VerifC19Raw", Args: []int64{nw, maxb, p}, Timeout: 10 * time.Minute})
			}
		}
		for f := int64(0); f < 3; f++ {
			for sh := int64(0); sh < 4; sh++ {
				js = append(js, &Job{Pkg: pkgRunner, Func: "VerifC19Formats", Args: []int64{f, sh}, Timeout: 10 * time.Minute})
			}
		}
		js = append(js, &Job{Pkg: pkgOutput, Func: "VerifC19Ansi", Timeout: 10 * time.Minute})
		longs := []int64{4095, 4096, 4097, 5000}
		if tier == "thorough" {
			longs = append(longs, 8191, 8192, 8193, 10000)
		}
		for _, n := range longs {
			js = append(js, &Job{Pkg: pkgOutput, Func: "VerifC19Long", Args: []int64{n}, MaxLen: 20000, Timeout: 12 * time.Minute})
		}
		if tier == "thorough" {
			pref(3, 3, 1)
			pref(2, 4, 1)
			pref(4, 2, 0)
			raw(3, 3)
		} else {
			pref(2, 3, 1)
			pref(3, 2, 0)
			raw(2, 2)
		}
		return js
	}
	register(&PropSpec{ID: "C19", Jobs: c19jobs,
		Covers: []string{"C19.several-lines", "C19.more-lines-than-writes", "C19.long-line-checked", "C19.ansi-checked", "C19.raw-forwarded", "C19.format-run-completed-without-crash", "C19.skipped-task-under-format", "C19.before-hook-failed-under-format"},
		Bounds: map[string]interface{}{
			"quick":    "(b) a task with optional condition and before hook run through the real TaskRunner under raw / prefixed / cockpit with symbolic outcomes: same commands, same recorded result, no panic. (a) prefixed: 2 Write calls of 0..3 bytes, every byte symbolic over all values except ESC (0x1b) and 0xc2; and 3 calls of 0..2 bytes over {a,b,CR,LF}; then WriteFooter. raw: 2 calls of 0..2 arbitrary bytes. Long lines: one line of 4095, 4096, 4097 and 5000 bytes (around bufio.Writer's buffer size) in one Write call, first / middle / last byte symbolic, the rest a concrete filler, optionally after a short unterminated chunk, optionally terminated: reaches the destination in ONE write, complete. ANSI: streams of three segments, each one of {a, ESC[32m, LF, b ESC[0m, ESC[1;31m c, CR LF} (216 streams), written in two calls split at every byte position, also inside a sequence; on concrete bytes the real regexp package evaluates ansiRegexp",
			"thorough": "long lines of 8191, 8192, 8193 and 10000 bytes as well; prefixed: 3 calls x 0..3 bytes and 2 calls x 0..4 bytes (any byte except ESC/0xc2), 4 calls x 0..2 bytes over {a,b,CR,LF}; raw: 3 calls x 0..3 bytes",
		},
		Outside:     []string{"long lines of other lengths than the ones listed, or with more than three non-filler bytes, or split over several Write calls", "ANSI escape sequences other than the three colour sequences of the ANSI harness; in the harnesses with symbolic bytes ansiRegexp.ReplaceAllLiteral is the identity, which is exact only for inputs without ESC / U+009B: such bytes are excluded there by assumption", "interleaving of concurrent tasks: each task owns its decorator and every line reaches the sink in one Write call (asserted), so the concurrent claim follows if the sink's Write is atomic - assumed", "the spinner (briandowns/spinner) and its goroutine: stubbed; its lock ordering against the cockpit mutex is therefore not analysed"},
		Assumptions: []string{"fmt.Fprintf(dst, \"%s: %s\\r\\n\", name, p) is modelled as one dst.Write of the concatenation", "aurora.Cyan is presentation only (passes the name through)", "real SSA of bufio.ScanLines, bufio.Writer, bytes.IndexByte (intrinsic, branch-free) is executed"},
		Replay: map[string]*ReplaySpec{"*": {PkgDir: "pkg/output", File: "C19_replay_test.go", Test: "TestVerifReplayC19"},
			"VerifC19Long":    {PkgDir: "pkg/output", File: "C19_replay_test.go", Test: "TestVerifReplayC19Long"},
			"VerifC19Ansi":    {PkgDir: "pkg/output", File: "C19_replay_test.go", Test: "TestVerifReplayC19Ansi"},
			"VerifC19Formats": {PkgDir: "pkg/runner", File: "C19_formats_replay_test.go", Test: "TestVerifReplayC19Formats"}}})

	c07jobs := func(tier string) []*Job {
		js := c06jobs(tier)
		maxn := int64(3)
		if tier == "thorough" {
			maxn = 4
		}
		for n := int64(0); n <= maxn; n++ {
			// deep = 0: runTask / runPipeline are recording stand-ins; 1: they are executed, the stand-ins are
			// TaskRunner.Run / Scheduler.Schedule, and the summary flag / setting are symbolic
			for deep := int64(0); deep <= 1; deep++ {
				if n > 0 {
					js = append(js, &Job{Pkg: pkgMain, Func: "VerifC07Root", Args: []int64{n, deep}, Timeout: 30 * time.Minute})
				}
				js = append(js, &Job{Pkg: pkgMain, Func: "VerifC07Run", Args: []int64{n, deep}, Timeout: 30 * time.Minute})
				js = append(js, &Job{Pkg: pkgMain, Func: "VerifC07RunTask", Args: []int64{n, deep}, Timeout: 30 * time.Minute})
			}
		}
		js = append(js, &Job{Pkg: pkgMain, Func: "VerifC07Main", Timeout: 5 * time.Minute})
		// a pipeline target succeeded iff no stage failed hard: whole Schedule runs (thread mode) on three
		// 3-stage graphs (independent stages, a chain, a fork); the obligation is C02's, attributed to C07
		// when the native replay shows the run reporting success although a stage failed
		for _, e := range []int64{0, 9, 3} {
			js = append(js, &Job{Pkg: pkgScheduler, Func: "VerifSchedWhole", Args: []int64{3, e, 1}, Timeout: 30 * time.Minute, MaxSteps: 2000000000})
		}
		return js
	}
	register(&PropSpec{ID: "C07", Jobs: c07jobs, Harness: []string{"C06", "C07", "C01"}, AttributeByReplay: true,
		Covers: []string{"C06.command-failed", "C06.succeeded", "C06.skipped", "C07.cli-failure", "C07.cli-success", "C07.cli-two-targets", "C07.main-exits-nonzero-on-failure", "C07.main-returns-normally-on-success"},
		Bounds: map[string]interface{}{
			"quick":    map[string]interface{}{"task level": c06bounds["quick"], "cli level": "argument vectors of 0..3 words, each a symbolic member of {t1, t2, p1, unknown, --}; every target's result symbolic; root action, `run`, `run task`; main with run() succeeding/failing", "stage level": "whole runs of the real Scheduler (thread mode, preemption bound 1) on 3 independent stages, a chain and a fork with symbolic outcomes / allow_failure / conditions: the run reports an error iff a stage failed hard"},
			"thorough": map[string]interface{}{"task level": c06bounds["thorough"], "cli level": "argument vectors of 0..4 words", "stage level": "same"},
		},
		Outside:     append([]string{"urfave/cli delivering the action's error as app.Run's result, flag parsing", "logrus.Fatal exiting with status 1 (its documented contract)", "the literal target name `pipeline`, which `run` skips by design", "stage level (a failing task fails the pipeline run): whole Schedule runs on three 3-stage graphs only (all graphs: C02)"}, c06outside...),
		Assumptions: append([]string{"stubs: cli.Context.Args/NArg/Bool/StringSlice backed by the harness vector; runTask/runPipeline replaced by recording stand-ins with symbolic results; run() replaced in the main harness"}, c06assume...),
		Replay: map[string]*ReplaySpec{
			"VerifC06Task":    {PkgDir: "pkg/runner", File: "C06_replay_test.go", Test: "TestVerifReplayC06"},
			"VerifSchedWhole": {PkgDir: "pkg/scheduler", File: "C01_replay_test.go", Test: "TestVerifReplaySched"},
			"*":               {PkgDir: "cmd/taskctl", File: "C07_cli_replay_test.go", Test: "TestVerifReplayC07"}}})

	c09jobs := func(tier string) []*Job {
		var js []*Job
		for mask := int64(0); mask < 64; mask++ {
			if mask&16 == 0 {
				js = append(js, &Job{Pkg: pkgConfig, Func: "VerifC09Env", Args: []int64{mask, 0, 0}, Timeout: 20 * time.Minute})
			}
			js = append(js, &Job{Pkg: pkgConfig, Func: "VerifC09Env", Args: []int64{mask, 1, 0}, Timeout: 20 * time.Minute})
			// values = 2 arbitrary printable bytes per level (unit-string encoding: pure bit-vector reasoning)
			js = append(js, &Job{Pkg: pkgConfig, Func: "VerifC09Env", Args: []int64{mask, 1, 2}, Timeout: 20 * time.Minute})
			if tier == "thorough" {
				js = append(js, &Job{Pkg: pkgConfig, Func: "VerifC09Env", Args: []int64{mask, 1, 3}, Timeout: 20 * time.Minute})
				js = append(js, &Job{Pkg: pkgConfig, Func: "VerifC09Env", Args: []int64{mask, 1, 1}, Timeout: 20 * time.Minute})
			}
		}
		for mask := int64(0); mask < 8; mask++ {
			if mask&1 == 0 {
				js = append(js, &Job{Pkg: pkgConfig, Func: "VerifC09Dir", Args: []int64{mask, 0}, Timeout: 10 * time.Minute})
			}
			js = append(js, &Job{Pkg: pkgConfig, Func: "VerifC09Dir", Args: []int64{mask, 1}, Timeout: 10 * time.Minute})
		}
		return js
	}
	register(&PropSpec{ID: "C09", Jobs: c09jobs,
		Covers: []string{"C09.command-saw-environment", "C09.two-levels-define-the-name", "C09.dir-checked"},
		Bounds: map[string]interface{}{
			"quick":    "one name defined at every subset of the six levels (64 subsets as stages, 32 as direct runs), each level's value an independent symbolic member of {a, m, z, the empty string} (so higher levels sort below, equal to and above lower ones, and a level may define the name with an empty value) and, as stages, each level's value 2 ARBITRARY printable bytes (every order relation, '=' inside values included); one unrelated parent variable; directories: every subset of stage/task/context dir, direct and as a stage, given literally or as a template over a task variable, for the before hook, the command and the after hook",
			"thorough": "additionally values of 1 and of 3 arbitrary printable bytes",
		},
		Outside:     []string{"how mvdan.cc/sh exports the Environ to child processes", "directory templates other than a leading reference to one task variable (utils.RenderString is a model that substitutes a leading {{.D}}; the real text/template engine runs in the native replay only)", "values longer than 3 bytes or with non-printable bytes", "the env_file parser (utils.ReadEnvFile stubbed to return the map; its crashes are C15)"},
		Assumptions: []string{"stubs: os.Environ, os.Getwd, utils.ReadEnvFile, utils.RenderString (identity), mvdan syntax.Parser.Parse and interp.New/StdIO/Runner.Run (records Env and Dir)", "executed for real: config.buildTask/buildPipeline/buildContext, TaskRunner.Run, TaskCompiler, Scheduler.Schedule/runStage (thread mode), DefaultExecutor.Execute, utils.ConvertEnv, mvdan expand.ListEnviron + listEnviron.Get", "sort.Strings modelled as a compare-exchange network over str.<"},
		Replay:      map[string]*ReplaySpec{"*": {PkgDir: "internal/config", File: "C09_replay_test.go", Test: "TestVerifReplayC09"}}})

	c10jobs := func(tier string) []*Job {
		var js []*Job
		for mask := int64(0); mask < 16; mask++ {
			if mask&8 == 0 {
				js = append(js, &Job{Pkg: pkgMain, Func: "VerifC10Vars", Args: []int64{mask, 0}, Timeout: 20 * time.Minute})
			}
			js = append(js, &Job{Pkg: pkgMain, Func: "VerifC10Vars", Args: []int64{mask, 1}, Timeout: 20 * time.Minute})
		}
		maxn := int64(4) // (5 words: one solver query of VerifC10Args[5] timed out under load - not registered)
		for n := int64(0); n <= maxn; n++ {
			js = append(js, &Job{Pkg: pkgMain, Func: "VerifC10Args", Args: []int64{n}, Timeout: 30 * time.Minute})
		}
		js = append(js, &Job{Pkg: pkgConfig, Func: "VerifC10ConfigVars", Timeout: 5 * time.Minute})
		return js
	}
	register(&PropSpec{ID: "C10", Jobs: c10jobs,
		Covers: []string{"C10.rendered", "C10.undefined", "C10.two-levels", "C10.args-checked", "C10.two-args", "C10.configuration-level-checked"},
		Bounds: map[string]interface{}{
			"quick":    "one template variable defined at every subset of {configuration (as present in cfg.Variables after loading), --set, task, stage}, values independent symbolic members of {a, m, z, the empty string}, target run directly and as a pipeline stage; argument vectors `t1` + 0..4 symbolic words over {--, t1, -x, a=b, w}",
			"thorough": "same bounds, assertion queries re-checked with a second solver",
		},
		Outside:     []string{"mergo itself (reflection, not encodable): Config.merge's call to mergo.Merge is replaced by a model of mergo's documented default behaviour on *Config (destination fields are filled only when empty, maps receive missing keys); the native replay runs the real mergo", "real text/template semantics (stub: single-reference template resolves to the value if the key is present, error otherwise - the missingkey=error contract)", "Root (set inside Loader.Load, stubbed)", "urfave/cli flag parsing"},
		Assumptions: []string{"stubs: Loader.Load returns the harness configuration; cli.Context accessors; utils.RenderString model; shell parser/interpreter; os.Environ/Getwd", "executed for real: the app's Before hook (--set loop), rootAction, buildTaskRunner, taskArgs, runTarget/runTask/runPipeline, NewTaskRunner, TaskRunner.Run, TaskCompiler, Scheduler.Schedule/runStage, DefaultExecutor.Execute"},
		Replay: map[string]*ReplaySpec{"*": {PkgDir: "cmd/taskctl", File: "C10_replay_test.go", Test: "TestVerifReplayC10"},
			"VerifC10ConfigVars": {PkgDir: "internal/config", File: "C10_configvars_replay_test.go", Test: "TestVerifReplayC10ConfigVars"}}})

	schedJobs := func(tier string) []*Job {
		var js []*Job
		for e := int64(0); e < 64; e++ {
			for am := int64(0); am < 8; am++ {
				js = append(js, &Job{Pkg: pkgScheduler, Func: "VerifSchedPass", Args: []int64{3, e, am}, Timeout: 30 * time.Minute, MaxSteps: 100000000})
			}
			pb := int64(1)
			if tier == "thorough" && e != 0 {
				pb = 2 // (three independent stages with bound 2: 4 million schedules, over 30 minutes - stays at bound 1)
			}
			js = append(js, &Job{Pkg: pkgScheduler, Func: "VerifSchedWhole", Args: []int64{3, e, pb}, Timeout: 30 * time.Minute, MaxSteps: 2000000000})
		}
		if tier == "thorough" {
			// six representative 4-stage graphs (chain, diamond, fork, join, reversed chain, two pairs), every in-flight set
			for _, e := range []int64{273, 291, 7, 292, 2184, 257} {
				for am := int64(0); am < 16; am++ {
					js = append(js, &Job{Pkg: pkgScheduler, Func: "VerifSchedPass", Args: []int64{4, e, am}, Timeout: 120 * time.Minute, MaxSteps: 4000000000})
				}
			}
		}
		for e := int64(0); e < 4; e++ {
			for am := int64(0); am < 4; am++ {
				js = append(js, &Job{Pkg: pkgScheduler, Func: "VerifSchedPass", Args: []int64{2, e, am}, Timeout: 10 * time.Minute})
			}
		}
		for ie := int64(0); ie < 64; ie++ {
			js = append(js, &Job{Pkg: pkgScheduler, Func: "VerifSchedNested", Args: []int64{ie, 1, 1, 0}, Timeout: 30 * time.Minute, MaxSteps: 5000000000})
			if tier == "thorough" {
				// (the variant without outer dependencies, pd = 0, takes 10-30 minutes per inner graph: not registered)
				for _, pd := range []int64{3} {
					js = append(js, &Job{Pkg: pkgScheduler, Func: "VerifSchedNested", Args: []int64{ie, pd, 0, 0}, Timeout: 30 * time.Minute, MaxSteps: 5000000000})
				}
			}
		}
		// cancelled runs: condition error at each stage, and an external Cancel at any point (a sample of graphs)
		for _, e := range []int64{0, 1, 9, 36, 33} {
			for which := int64(0); which < 3; which++ {
				js = append(js, &Job{Pkg: pkgScheduler, Func: "VerifSchedCancel", Args: []int64{3, e, 1, which, 1}, Timeout: 20 * time.Minute, MaxSteps: 2000000000})
			}
			js = append(js, &Job{Pkg: pkgScheduler, Func: "VerifSchedCancel", Args: []int64{3, e, 2, 0, 1}, Timeout: 20 * time.Minute, MaxSteps: 2000000000})
		}
		// tasks that need the concurrency (a barrier between the tasks of stages eligible together)
		for sh := int64(0); sh < 4; sh++ {
			js = append(js, &Job{Pkg: pkgScheduler, Func: "VerifSchedBarrier", Args: []int64{sh, 1}, Timeout: 10 * time.Minute})
		}
		js = append(js, &Job{Pkg: pkgScheduler, Func: "VerifSchedWorker", Args: []int64{0}, Timeout: 5 * time.Minute})
		js = append(js, &Job{Pkg: pkgScheduler, Func: "VerifSchedWorker", Args: []int64{1}, Timeout: 5 * time.Minute})
		return js
	}
	schedBounds := map[string]interface{}{
		"quick":    "every directed graph on 3 stages (64 edge sets over ordered pairs; the 25 acyclic ones are analysed, declaration order = visiting order so all orders are covered) and on 2 stages; per stage symbolic allow_failure, outcome, condition absent/true/false. (a) interference mode: ONE pass / the exit path of the real Schedule from an ARBITRARY state satisfying the invariant, worker interference (rely relation) at every atomic operation - covers runs of any length and every fine-grained interleaving; (b) the real worker closure for a task stage and a nested-pipeline stage against the rely relation; (c) thread mode: whole Schedule runs from the initial state, interleavings enumerated with preemption bound 1; (d) thread mode: an outer pipeline a->b, p(a) whose stage p is a nested pipeline over every 3-stage graph REUSING the names a, b, c, symbolic outcomes; (f) thread mode: four small pipelines whose tasks do not return before the tasks of the stages eligible together with them have started (stages carry env / variables containers as configuration-built stages do): the run must complete; (e) thread mode: cancelled runs on 5 graphs - a stage condition that cannot be evaluated (each stage), and Scheduler.Cancel from another thread at every visible point (preemption bound 1)",
		"thorough": "same graphs; thread-mode cross-check with preemption bound 2 (bound 1 for three independent stages); interference mode additionally on six 4-stage graphs (chain, diamond, fork, join, reversed chain, two independent pairs) with every in-flight set; nested pipelines with a second stage-dependency variant",
	}
	schedOutside := []string{"more than 3 stages (a 4-stage graph did not finish within 20 minutes per graph in interference mode, nor in thread mode: not registered)", "nesting deeper than one level (the nested Schedule call is the same function; the worker harness checks that its result is propagated)", "cancellation is covered with a stub runner on 5 of the 25 graphs (the real TaskRunner side of cancellation is C12)", "wall-clock overlap: the 50 ms pause is the cut point / a deschedule", "the composition step obligations => property is a hand argument (DESIGN C01-C04); the thread-mode runs are its end-to-end cross-check"}
	schedAssume := []string{"rely relation iStep/iMayStop for workers (validated against the real goroutine body by VerifSchedWorker)", "checkStageCondition stubbed: a stage's condition has a fixed truth value", "runner.Runner stubbed; tasks terminate", "sync/atomic, WaitGroup, go statements: engine intrinsics; sequential consistency at atomic operations", "map iteration order = insertion (declaration) order; all orders covered by enumerating edge sets over ordered pairs"}
	schedReplay := map[string]*ReplaySpec{"*": {PkgDir: "pkg/scheduler", File: "C01_replay_test.go", Test: "TestVerifReplaySched"},
		"VerifSchedNested":  {PkgDir: "pkg/scheduler", File: "C01_replay_test.go", Test: "TestVerifReplaySchedNested"},
		"VerifSchedBarrier": {PkgDir: "pkg/scheduler", File: "C01_replay_test.go", Test: "TestVerifReplaySchedBarrier"},
		"VerifSchedWorker": {PkgDir: "pkg/scheduler", File: "C01_replay_test.go", Test: "TestVerifReplaySchedWorker"}}
	for _, id := range []string{"C01", "C02", "C03", "C04"} {
		covers := []string{"C03.cancelled-run-returns", "C03.condition-error-cancels-the-run", "C01.nested-run-returns", "C01.acyclic-graph", "C01.launch", "C03.pass-reaches-the-pause", "C03.schedule-returns", "C01.worker-checked", "C03.whole-run-returns", "C04.all-eligible-started-in-one-pass", "C04.barrier-checked"}
		register(&PropSpec{ID: id, Jobs: schedJobs, Harness: []string{"C01"}, AttributeByReplay: true, Covers: covers, Bounds: schedBounds, Outside: schedOutside, Assumptions: schedAssume, Replay: schedReplay})
	}

	c12jobs := func(tier string) []*Job {
		js := []*Job{
			{Pkg: pkgRunner, Func: "VerifC12Cancel", Args: []int64{0, 1, 9}, Timeout: 10 * time.Minute},
			{Pkg: pkgRunner, Func: "VerifC12Cancel", Args: []int64{0, 2, 9}, Timeout: 10 * time.Minute},
			{Pkg: pkgRunner, Func: "VerifC12Cancel", Args: []int64{1, 1, 9}, Timeout: 10 * time.Minute},
			{Pkg: pkgRunner, Func: "VerifC12Cancel", Args: []int64{1, 2, 9}, Timeout: 10 * time.Minute},
			{Pkg: pkgRunner, Func: "VerifC12Cancel", Args: []int64{2, 1, 3}, Timeout: 30 * time.Minute, MaxSteps: 2000000000},
			{Pkg: pkgRunner, Func: "VerifC12Cancel", Args: []int64{2, 2, 2}, Timeout: 30 * time.Minute, MaxSteps: 2000000000},
			{Pkg: pkgRunner, Func: "VerifC12Cancel", Args: []int64{3, 1, 1}, Timeout: 30 * time.Minute, MaxSteps: 2000000000},
			// two threads cancelling concurrently while a run winds down through its context's after command
			{Pkg: pkgRunner, Func: "VerifC12Cancel", Args: []int64{1, 1, 4, 2, 1}, Timeout: 30 * time.Minute, MaxSteps: 2000000000},
			{Pkg: pkgRunner, Func: "VerifC12Cancel", Args: []int64{2, 1, 2, 2, 1}, Timeout: 30 * time.Minute, MaxSteps: 2000000000},
			// through the scheduler: real Scheduler + real TaskRunner, cancelled from outside (mode 0) or by a stage-condition error (mode 1)
			{Pkg: pkgScheduler, Func: "VerifC12Sched", Args: []int64{0, 0, 0}, Timeout: 12 * time.Minute, MaxSteps: 2000000000},
			{Pkg: pkgScheduler, Func: "VerifC12Sched", Args: []int64{2, 0, 0}, Timeout: 12 * time.Minute, MaxSteps: 2000000000},
			{Pkg: pkgScheduler, Func: "VerifC12Sched", Args: []int64{0, 1, 0}, Timeout: 12 * time.Minute, MaxSteps: 2000000000},
			{Pkg: pkgScheduler, Func: "VerifC12Sched", Args: []int64{1, 1, 0}, Timeout: 12 * time.Minute, MaxSteps: 2000000000},
			{Pkg: pkgScheduler, Func: "VerifC12Sched", Args: []int64{2, 1, 0}, Timeout: 12 * time.Minute, MaxSteps: 2000000000},
			// a nested pipeline: cancelled from outside, and by the condition of a NESTED stage
			{Pkg: pkgScheduler, Func: "VerifC12Sched", Args: []int64{3, 0, 0}, Timeout: 12 * time.Minute, MaxSteps: 2000000000},
			{Pkg: pkgScheduler, Func: "VerifC12Sched", Args: []int64{3, 1, 0}, Timeout: 12 * time.Minute, MaxSteps: 2000000000},
		}
		if tier == "thorough" {
			js = append(js, &Job{Pkg: pkgScheduler, Func: "VerifC12Sched", Args: []int64{1, 0, 0}, Timeout: 60 * time.Minute, MaxSteps: 20000000000},
				&Job{Pkg: pkgScheduler, Func: "VerifC12Sched", Args: []int64{2, 0, 1}, Timeout: 60 * time.Minute, MaxSteps: 20000000000},
				&Job{Pkg: pkgRunner, Func: "VerifC12Cancel", Args: []int64{2, 1, 4}, Timeout: 60 * time.Minute, MaxSteps: 20000000000},
				&Job{Pkg: pkgRunner, Func: "VerifC12Cancel", Args: []int64{3, 1, 2}, Timeout: 60 * time.Minute, MaxSteps: 20000000000})
		}
		return js
	}
	register(&PropSpec{ID: "C12", Jobs: c12jobs,
		Covers: []string{"C12.all-threads-returned", "C12.a-command-was-interrupted", "C12.sched-checked", "C12.sched.a-running-command-was-interrupted"},
		Bounds: map[string]interface{}{
			"quick":    "0, 1 (preemption-unbounded), 2 (preemption bound 3) and 3 (bound 1) concurrent TaskRunner.Run calls (1-2 commands, one with a before hook) + one thread calling Cancel once or twice, and two threads calling Cancel concurrently while the run(s) wind down through an execution context's after command; every interleaving at visible operations (RWMutex, channel close/receive, context cancel, command start/finish); command outcomes symbolic, allow_failure of two tasks symbolic. Through the scheduler: pipelines of three stages (a, b after a, c | chain | three independent for the condition mode | a nested pipeline {a, b} beside c, the failing condition on the nested b) with symbolic allow_failure per stage and task, run by the real Scheduler with the real TaskRunner, cancelled by another thread calling Scheduler.Cancel at any blocking point or by a stage condition that cannot be evaluated once commands run; preemption bound 0",
			"thorough": "2 runs with preemption bound 4, 3 runs with bound 2; three independent stages cancelled from outside; the chain with preemption bound 1",
		},
		Outside:     []string{"that the interpreter stops a running command when its context is cancelled (mvdan DefaultExecHandler + the OS): assumed by the executor stub", "'within bounded time' is checked as absence of deadlock/livelock", "more than 3 concurrent runs / 3 stages"},
		Assumptions: []string{"stub: Execute = start, yield, then the context's error if cancelled meanwhile else a symbolic outcome; a call made with an already-cancelled context starts nothing", "thread mode: sequential consistency at visible operations, data-race freedom of non-atomic fields between them", "engine intrinsics for sync.RWMutex, channels, context"},
		Replay: map[string]*ReplaySpec{"*": {PkgDir: "pkg/runner", File: "C12_replay_test.go", Test: "TestVerifReplayC12"},
			"VerifC12Sched": {PkgDir: "pkg/scheduler", File: "C12_sched_replay_test.go", Test: "TestVerifReplayC12Sched"}}})

	c14jobs := func(tier string) []*Job {
		var js []*Job
		for nt := int64(1); nt <= 2; nt++ {
			for shape := int64(0); shape < 8; shape++ {
				js = append(js, &Job{Pkg: pkgRunner, Func: "VerifC14Hooks", Args: []int64{nt, shape, 0}, Timeout: 30 * time.Minute, MaxSteps: 200000000})
				if nt == 2 {
					js = append(js, &Job{Pkg: pkgRunner, Func: "VerifC14Hooks", Args: []int64{nt, shape, 1}, Timeout: 30 * time.Minute, MaxSteps: 200000000})
				}
			}
		}
		pb := int64(3)
		if tier == "thorough" {
			pb = 5
			for shape := int64(0); shape < 8; shape++ {
				js = append(js, &Job{Pkg: pkgRunner, Func: "VerifC14Hooks", Args: []int64{3, shape, 0}, Timeout: 60 * time.Minute, MaxSteps: 2000000000})
			}
		}
		js = append(js, &Job{Pkg: pkgRunner, Func: "VerifC14Up", Args: []int64{pb}, Timeout: 30 * time.Minute, MaxSteps: 2000000000})
		js = append(js, &Job{Pkg: pkgMain, Func: "VerifC14CLI", Args: []int64{0}, Timeout: 5 * time.Minute})
		js = append(js, &Job{Pkg: pkgMain, Func: "VerifC14CLI", Args: []int64{1}, Timeout: 5 * time.Minute})
		for mode := int64(0); mode < 3; mode++ {
			for second := int64(0); second < 2; second++ {
				if mode == 2 && second == 1 {
					continue
				}
				js = append(js, &Job{Pkg: pkgMain, Func: "VerifC14CLIMulti", Args: []int64{mode, second}, Timeout: 10 * time.Minute})
			}
		}
		return js
	}
	register(&PropSpec{ID: "C14", Jobs: c14jobs,
		Covers: []string{"C14.hooks-checked", "C14.up-failed", "C14.two-tasks-share-a-context", "C14.concurrent-up-checked", "C14.concurrent-up-failed", "C14.cli-checked", "C14.cli-multi-checked", "C14.cli-two-targets-ran"},
		Bounds: map[string]interface{}{
			"quick":    "1..2 sequential task runs sharing one context, and two tasks on two different contexts (up, down, before, after commands; a second, unused context), tasks with/without condition, before hook, after hook (8 shapes), symbolic outcome (success / any exit status) for every context and task command, symbolic allow_failure; two simultaneous runs on a fresh context in thread mode (preemption bound 3), up succeeding/failing; CLI: runTask / runPipeline with the target succeeding/failing; two CLI targets (task+task, task+pipeline) sharing a context through the root action, `run` and `run task`, real TaskRunner, symbolic outcomes",
			"thorough": "3 sequential runs; preemption bound 5",
		},
		Outside:     []string{"more than 3 tasks / more than two used contexts", "sync.Once's own implementation (engine intrinsic)", "contexts used through the scheduler (same TaskRunner.Run)"},
		Assumptions: []string{"stub: (*DefaultExecutor).Execute records the command and returns a symbolic outcome", "CLI harness: TaskRunner.Run/Finish and Scheduler.Schedule replaced by recording stand-ins"},
		Replay: map[string]*ReplaySpec{
			"VerifC14CLI":      {PkgDir: "cmd/taskctl", File: "C14_cli_replay_test.go", Test: "TestVerifReplayC14CLI"},
			"VerifC14CLIMulti": {PkgDir: "cmd/taskctl", File: "C14_cli_replay_test.go", Test: "TestVerifReplayC14CLIMulti"},
			"*":           {PkgDir: "pkg/runner", File: "C14_replay_test.go", Test: "TestVerifReplayC14"}}})

	c08jobs := func(tier string) []*Job {
		var js []*Job
		pb := int64(1)
		if tier == "thorough" {
			pb = 2
		}
		for arr := int64(0); arr < 4; arr++ {
			js = append(js, &Job{Pkg: pkgConfig, Func: "VerifC08", Args: []int64{arr, pb}, Timeout: 30 * time.Minute, MaxSteps: 2000000000})
		}
		// with the real TaskRunner: what the commands finally receive
		for arr := int64(0); arr < 3; arr++ {
			js = append(js, &Job{Pkg: pkgConfig, Func: "VerifC08Real", Args: []int64{arr, pb - 1}, Timeout: 30 * time.Minute, MaxSteps: 2000000000})
		}
		return js
	}
	register(&PropSpec{ID: "C08", Jobs: c08jobs,
		Covers: []string{"C08.checked", "C08.real-checked"},
		Bounds: map[string]interface{}{
			"quick":    "4 stages sharing one task (s0 overrides env K, variable K and dir; s1 env K only; s2 nothing; s3 variable K only) in four dependency arrangements (parallel, two chains, mixed), followed by a second pipeline and a direct-run view of the same task; all values symbolic over a 3-element domain; thread mode with preemption bound 1. With the REAL TaskRunner (executor stubbed): 3 stages sharing a task that optionally uses a named execution context (s0 overrides env K + a name of its own + variable K + dir, s1 env K + a name of its own, s2 nothing) in three arrangements, then a second pipeline and a direct run on the same runner: the environment, variables and directory each command finally receives; preemption bound 0",
			"thorough": "preemption bound 2 (1 for the real-runner harness)",
		},
		Outside:     []string{"more than 4 stages / 2 keys per kind", "how the interpreter hands the environment to child processes (C09 covers the list construction)", "the CLI echo path"},
		Assumptions: []string{"runner.Runner replaced by a recording stand-in that reads t.Env / t.Variables / t.Dir at the call", "real: config.buildTask, config.buildPipeline, Scheduler.Schedule/runStage, variables.Variables (sync.Map intrinsic)"},
		Replay: map[string]*ReplaySpec{"*": {PkgDir: "internal/config", File: "C08_replay_test.go", Test: "TestVerifReplayC08"},
			"VerifC08Real": {PkgDir: "internal/config", File: "C08_real_replay_test.go", Test: "TestVerifReplayC08Real"}}})

	c11jobs := func(tier string) []*Job {
		js := []*Job{
			{Pkg: pkgRunner, Func: "VerifC11", Args: []int64{0, 1, 0, 2}, Timeout: 20 * time.Minute},
			{Pkg: pkgRunner, Func: "VerifC11", Args: []int64{0, 3, 0, 1}, Timeout: 20 * time.Minute},
			{Pkg: pkgRunner, Func: "VerifC11", Args: []int64{0, 0, 1, 2}, Timeout: 20 * time.Minute},
			{Pkg: pkgRunner, Func: "VerifC11", Args: []int64{2, 1, 0, 1}, Timeout: 20 * time.Minute},
			{Pkg: pkgRunner, Func: "VerifC11", Args: []int64{1, 2, 0, 2}, Timeout: 20 * time.Minute},
			{Pkg: pkgConfig, Func: "VerifC11Exec", Args: []int64{2}, Timeout: 20 * time.Minute},
			{Pkg: pkgConfig, Func: "VerifC11Exec", Args: []int64{3}, Timeout: 20 * time.Minute},
			{Pkg: pkgConfig, Func: "VerifC11Ansi", Args: []int64{2}, Timeout: 20 * time.Minute},
			{Pkg: pkgConfig, Func: "VerifC11Ansi", Args: []int64{3}, Timeout: 20 * time.Minute},
		}
		if tier == "thorough" {
			js = append(js, &Job{Pkg: pkgRunner, Func: "VerifC11", Args: []int64{2, 2, 0, 2}, Timeout: 90 * time.Minute, MaxSteps: 2000000000},
				&Job{Pkg: pkgRunner, Func: "VerifC11", Args: []int64{0, 4, 0, 2}, Timeout: 60 * time.Minute},
				&Job{Pkg: pkgRunner, Func: "VerifC11", Args: []int64{3, 1, 1, 1}, Timeout: 90 * time.Minute, MaxSteps: 2000000000})
		}
		return js
	}
	register(&PropSpec{ID: "C11", Jobs: c11jobs,
		Covers: []string{"C11.producer-succeeded", "C11.producer-failed", "C11.exec-checked"},
		Bounds: map[string]interface{}{
			"quick":    "producer with 2 commands x {no, 1, 2} variations, every executed command printing 0..2 (0..1 for 2 variations) arbitrary symbolic non-NUL bytes and succeeding or failing, allow_failure symbolic; producer name of 0..3 symbolic printable-ASCII characters, with and without exportAs; a consumer task run afterwards by the same runner; with the REAL executor (VerifC11Exec): 2..3 commands each printing 0..2 arbitrary non-NUL bytes on stdout and optionally one on stderr, exportAs given or not, the consumer reads the exported name from the interpreter environment; the same under the prefixed output format with coloured output (VerifC11Ansi: each command prints one of four concrete texts with escape sequences)",
			"thorough": "2 variations with 0..2 bytes per command, 3 variations, names of 4 characters",
		},
		Outside:     []string{"byte-exactness of bytes.Buffer and of the interpreter's writes (bytes.Buffer is modelled as string concatenation)", "non-ASCII task names, outputs longer than 2 bytes per command (64 KiB)", "that dependent stages run after the producer (C01)", "the claim is at wiring level: which writer / variable receives which text"},
		Assumptions: []string{"stub: Execute writes the symbolic bytes to job.Stdout and returns them as the command's output; in VerifC11Exec the REAL DefaultExecutor.Execute / NewDefaultExecutor run (shared buffer, offset, MultiWriter) and only the interpreter is a stub printing symbolic bytes to the configured stdout and stderr", "regexp [^a-zA-Z0-9_] ReplaceAllString and strings.ToUpper: engine intrinsics (per-byte, ASCII)", "io.MultiWriter: real SSA"},
		Replay: map[string]*ReplaySpec{"*": {PkgDir: "pkg/runner", File: "C11_replay_test.go", Test: "TestVerifReplayC11"},
			"VerifC11Exec": {PkgDir: "pkg/runner", File: "C11_replay_test.go", Test: "TestVerifReplayC11Exec"},
			"VerifC11Ansi": {PkgDir: "pkg/runner", File: "C11_replay_test.go", Test: "TestVerifReplayC11Exec"}}})

	c13jobs := func(tier string) []*Job {
		js := []*Job{
			{Pkg: pkgConfig, Func: "VerifC13", Args: []int64{1, 0, 0}, Timeout: 30 * time.Minute},
			{Pkg: pkgConfig, Func: "VerifC13", Args: []int64{0, 0, 0}, Timeout: 30 * time.Minute},
			{Pkg: pkgConfig, Func: "VerifC13", Args: []int64{1, 0, 1}, Timeout: 30 * time.Minute},
		}
		if tier == "thorough" {
			js = append(js, &Job{Pkg: pkgConfig, Func: "VerifC13", Args: []int64{1, 2, 0}, Timeout: 90 * time.Minute})
		}
		return js
	}
	register(&PropSpec{ID: "C13", Jobs: c13jobs,
		Covers: []string{"C13.a-command-overran", "C13.after-hook-overran", "C13.overrun-failed-the-task", "C13.overrun-fails-even-with-allow-failure", "C13.within-deadline-unaffected"},
		Bounds: map[string]interface{}{
			"quick":    "task with (optionally) a condition, a before hook, two commands and an after hook; timeout absent, or present with an arbitrary symbolic duration (64-bit); the clock is a symbolic non-decreasing instant; every command has a symbolic duration and either overruns its context's deadline (cut short with the deadline error) or finishes with success / non-zero status; allow_failure symbolic",
			"thorough": "two variations (4 commands)",
		},
		Outside:     []string{"that the interpreter actually kills the process within the grace period it was configured with (the harness checks the grace period handed to it: the library default of 2 s or less), and that it reports an overrun as a context error rather than an exit status (a child that exits on SIGINT is reported by mvdan.cc/sh as an ordinary status - read in interp/handler.go, not encodable)", "wall-clock units", "the claim is at wiring level: every job carries the timeout, each Execute derives a fresh deadline of the full duration, and the runner reacts correctly to the deadline error"},
		Assumptions: []string{"context.WithTimeout intrinsic: deadline = now + d", "stub: interp.Runner.Run returns context.DeadlineExceeded iff start + duration > deadline", "time.Now: arbitrary non-decreasing instants"},
		Replay:      map[string]*ReplaySpec{"*": {PkgDir: "internal/config", File: "C13_replay_test.go", Test: "TestVerifReplayC13"}}})

	c17jobs := func(tier string) []*Job {
		var js []*Job
		// maxImports: only the import-count vectors with at most that many imports in total (0 = all)
		mkLim := func(n, maxImports int64) {
			parts := int64(1)
			for i := int64(0); i < n; i++ {
				parts *= 3
			}
			for p := int64(0); p < parts; p++ {
				sum := int64(0)
				for q := p; q > 0; q /= 3 {
					sum += q % 3
				}
				if maxImports > 0 && sum > maxImports {
					continue
				}
				js = append(js, &Job{Pkg: pkgConfig, Func: "VerifC17", Args: []int64{n, p}, Timeout: 60 * time.Minute, MaxSteps: 2000000000})
			}
		}
		mk := func(n int64) { mkLim(n, 0) }
		mk(2)
		mk(3)
		if tier == "thorough" {
			// (all 81 import-count vectors of 4 files: the ones with 6-8 imports run for over 40 minutes - not registered)
			mkLim(4, 3)
		}
		return js
	}
	register(&PropSpec{ID: "C17", Jobs: c17jobs,
		Covers: []string{"C17.all-imports-fine", "C17.broken-import", "C17.import-cycle-or-self-import"},
		Bounds: map[string]interface{}{
			"quick":    "2 and 3 files in two directories (/p/a.yaml root, /p/sub/c.yaml, /p/sub/d.yaml - the directory holds two files, so one file of an imported directory can import its sibling) plus the directory /p/sub; every file has 0..2 imports, each a symbolic member of {the files, the directory, a missing name} written relative to the importing file (self-imports, mutual imports, repeats, directory imports all arise); per file symbolic exists / parses",
			"thorough": "4 files (adds /p/b.yaml) with at most 3 imports in total",
		},
		Outside:     []string{"URL imports", "what mergo does with the merged maps (mergo.Merge is a recording stub)", "the global configuration clause of the property: Config.merge = mergo on structs (reflection, not encodable) - not claimed", "more than 4 files / 2 imports per file"},
		Assumptions: []string{"stubs: utils.FileExists, os.Stat, Loader.readFile (returns the symbolic import list or a parse error), filepath.Glob, mergo.Merge (records importer/imported), utils.IsURL=false", "path.Join / path.Dir: exact on finite-domain strings (every combination joined with the real functions)"},
		Replay:      map[string]*ReplaySpec{"*": {PkgDir: "internal/config", File: "C17_replay_test.go", Test: "TestVerifReplayC17"}}})

	register(&PropSpec{ID: "C18",
		Jobs: func(tier string) []*Job {
			return []*Job{{Pkg: pkgConfig, Func: "VerifC18", Args: []int64{0}, Timeout: 30 * time.Minute, MaxSteps: 500000000},
				{Pkg: pkgConfig, Func: "VerifC18", Args: []int64{1}, Timeout: 30 * time.Minute, MaxSteps: 2000000000}}
		},
		Covers: []string{"C18.accepted", "C18.rejected", "C18.accepted-pipelines-ran-to-completion", "C18.well-formed-accepted"},
		Bounds: map[string]interface{}{
			"quick":    "one task, pipeline p1 with two stages and p2 with one stage, one watcher; per stage a symbolic reference over {existing task, unknown task, p1, p2, unknown pipeline}, a symbolic explicit name over {none, x, y}, and an optional depends_on entry over {x, y, t1, p2, unknown}; watcher task existing / unknown. Built by the real buildFromDefinition / buildPipeline / buildTask / graph; accepted configurations are then RUN (both pipelines) by the real scheduler in thread mode with a stub runner",
			"thorough": "same",
		},
		Outside:     []string{"more than 2 pipelines / 3 stages; inclusion cycles longer than 2", "watch.NewWatcher (fsnotify, globbing) is stubbed", "the parsers and mapstructure (the definition is constructed directly)"},
		Assumptions: []string{"map iteration in insertion order (p1 before p2)", "stub runner: tasks succeed"},
		Replay:      map[string]*ReplaySpec{"*": {PkgDir: "internal/config", File: "C18_replay_test.go", Test: "TestVerifReplayC18"}}})

	register(&PropSpec{ID: "C15", Harness: []string{"C15", "C17"},
		Jobs: func(tier string) []*Job {
			var js []*Job
			for sh := int64(0); sh < 10; sh++ {
				js = append(js, &Job{Pkg: pkgConfig, Func: "VerifC15Import", Args: []int64{sh}, Timeout: 5 * time.Minute})
			}
			for sh := int64(0); sh <= 10; sh++ {
				js = append(js, &Job{Pkg: pkgConfig, Func: "VerifC15Build", Args: []int64{sh}, Timeout: 5 * time.Minute})
			}
			for a := int64(0); a < 12; a++ { // 12 = len(c15LineShapes) in the harness and the replay
				for b := int64(0); b < 12; b++ {
					js = append(js, &Job{Pkg: pkgConfig, Func: "VerifC15EnvFile", Args: []int64{a, b}, Timeout: 5 * time.Minute})
				}
			}
			for sh := int64(0); sh < 6; sh++ {
				js = append(js, &Job{Pkg: pkgConfig, Func: "VerifC15Grammar", Args: []int64{sh}, Timeout: 20 * time.Minute, MaxSteps: 500000000})
			}
			js = append(js, &Job{Pkg: pkgMain, Func: "VerifC15Draw", Timeout: 10 * time.Minute})
			// import closures (files and a directory importing one another): loading ends
			for p := int64(0); p < 9; p++ {
				js = append(js, &Job{Pkg: pkgConfig, Func: "VerifC15ImportClosure", Args: []int64{2, p}, Timeout: 20 * time.Minute, MaxSteps: 2000000000})
			}
			for _, p := range []int64{4, 13, 22} {
				js = append(js, &Job{Pkg: pkgConfig, Func: "VerifC15ImportClosure", Args: []int64{3, p}, Timeout: 20 * time.Minute, MaxSteps: 2000000000})
			}
			return js
		},
		Covers: []string{"C15.import-shape-loaded", "C15.import-shape-rejected-with-an-error", "C15.definition-built", "C15.odd-definition-rejected-with-an-error", "C15.env-file-read", "C15.env-file-rejected-with-an-error", "C15.grammar-built", "C15.grammar-rejected", "C15.draw-checked", "C15.draw.structure-rejected"},
		Bounds: map[string]interface{}{
			"quick":    "taskctl's OWN loading code on the shapes the parsers can hand it: (i) the value under `import` = null, string, int, bool, list of strings, list with an int / null / nested list, string-keyed map, interface-keyed map; (ii) a definition with a null task / context / stage / watcher entry, a task whose env_file is missing, `dir` on a pipeline-typed stage, a stage naming neither or both of task and pipeline, a task without command, a pipeline without stages, no tasks section; (ii') a grammar of definitions: task t2 in 6 shapes (null, empty, null variation, unknown context + empty lists, renamed with variations/condition/dir, sound) x context c2 null/empty/absent x pipeline p2 null/empty/sound x two stages of p1 each in 8 shapes (null, empty, task, task with name+depends_on+dir+env, pipeline with dir+condition, task AND pipeline, name only, self-reference) x watcher null / unknown task / odd lists / sound = 13 824 definitions, then the fields the list/show/graph/validate commands read are walked; (iii) env files of two lines over {A=1, A, A=1=2, =, empty, =x, # comment, one space, one tab, indented comment, indented A=1, tab+space} (all 144 pairs), env file missing; (iv) the graph command: two pipelines of two stages each, every stage one of task / pipeline p1 / pipeline p2 / task AND p1 / task AND p2 (625 inclusion structures): whatever the real buildFromDefinition accepts is drawn by the real draw() of the graph command, which must return (the dot library is replaced by counting stubs). Any reachable panic (nil dereference, failed type assertion, index out of range) is a violation",
			"thorough": "same",
		},
		Outside:     []string{"panics, hangs or errors INSIDE yaml.v2, go-toml, encoding/json, mapstructure, mergo, text/template: not encodable; arbitrary bytes, truncation, anchors, invalid UTF-8 are therefore outside", "the list / show / validate commands on the loaded configuration (text/template reflection; they read the fields walked in (ii') without recursion) and the rendering of the graph by emicklei/dot", "bounded time beyond the import closure: VerifC15ImportClosure re-runs C17's import harness (2 files with every import-count vector, 3 files for three vectors) and claims for C15 only that no file is read again and again"},
		Assumptions: []string{"stubs: file system, Loader.readFile (returns the decoded shape), mergo.Merge, watch.NewWatcher, utils.ReadEnvFile (for (ii)), os.Open and bufio.Scanner (for (iii): the scanner yields the given lines)"},
		Replay: map[string]*ReplaySpec{"*": {PkgDir: "internal/config", File: "C15_replay_test.go", Test: "TestVerifReplayC15"},
			"VerifC15Draw":          {PkgDir: "cmd/taskctl", File: "C15_draw_replay_test.go", Test: "TestVerifReplayC15Draw"},
			"VerifC15ImportClosure": {PkgDir: "internal/config", File: "C17_replay_test.go", Test: "TestVerifReplayC17"}}})

	register(&PropSpec{ID: "C20",
		Jobs: func(tier string) []*Job {
			js := []*Job{
				{Pkg: pkgWatch, Func: "VerifC20Paths", Args: []int64{1, 1}, Timeout: 10 * time.Minute},
				{Pkg: pkgWatch, Func: "VerifC20Paths", Args: []int64{2, 2}, Timeout: 10 * time.Minute},
				{Pkg: pkgWatch, Func: "VerifC20Paths", Args: []int64{2, 0}, Timeout: 10 * time.Minute},
				{Pkg: pkgWatch, Func: "VerifC20Events", Args: []int64{1}, Timeout: 10 * time.Minute},
				{Pkg: pkgWatch, Func: "VerifC20Events", Args: []int64{2}, Timeout: 10 * time.Minute},
				{Pkg: pkgWatch, Func: "VerifC20Loop", Args: []int64{1, 0, 99}, Timeout: 10 * time.Minute},
			}
			// two events: the subscribed set fixed per job (none listed = all, write only, create+chmod, all but write)
			for _, m := range []int64{0, 2, 17, 29} {
				js = append(js, &Job{Pkg: pkgWatch, Func: "VerifC20Loop", Args: []int64{2, 0, m}, Timeout: 12 * time.Minute})
			}
			if tier == "thorough" {
				js = append(js, &Job{Pkg: pkgWatch, Func: "VerifC20Events", Args: []int64{3}, Timeout: 30 * time.Minute},
					&Job{Pkg: pkgWatch, Func: "VerifC20Loop", Args: []int64{2, 0, 99}, Timeout: 90 * time.Minute},
					&Job{Pkg: pkgWatch, Func: "VerifC20Loop", Args: []int64{1, 1, 0}, Timeout: 90 * time.Minute},
					&Job{Pkg: pkgWatch, Func: "VerifC20Loop", Args: []int64{1, 1, 2}, Timeout: 90 * time.Minute})
			}
			return js
		},
		Covers: []string{"C20.paths-checked", "C20.some-path-observed", "C20.handler-returned", "C20.unsubscribed-event", "C20.subscribed-event", "C20.loop-checked", "C20.loop.subscribed-event"},
		Bounds: map[string]interface{}{
			"quick":    "selection: up to 2 include and 2 exclude patterns over 3 candidate paths with the whole pattern x path match relation symbolic (512 relations per shape, decided per path by the solver); events: every subset of the five event names subscribed (none = all), 1..2 events of symbolic type handled by the real handler with the real TaskRunner (executor stubbed); the real Watcher.Run (registration of the selected paths, first run, polling loop, handler goroutines, Close) in thread mode with events of symbolic type delivered through the fsnotify channel: 1 event with every subscribed set, 2 events with the subscribed sets {none listed = all}, {write}, {create, chmod}, {all but write}; preemption bound 0 (threads switch where they block or sleep; a command then runs through without a switch - commands still in flight when the next event arrives are explored only by the thorough tier's bound-1 jobs); besides the per-event obligations, the state of the Watcher object (fields, fill level of the channels and maps they refer to) after the events were served equals its state before them - the inductive step behind \"keeps serving later events\"",
			"thorough": "3 events for the handler; the loop with 2 events and every subscribed set, and with 1 event and preemption bound 1 for two subscribed sets",
		},
		Outside:     []string{"doublestar's pattern semantics and the file-system walk (Glob / PathMatch are replaced by the symbolic relation)", "fsnotify / inotify delivery, combined Op bit-masks", "more than 2 events in the loop harness; schedules of the loop with more than one preemption"},
		Assumptions: []string{"stubs: doublestar.Glob / PathMatch, fsnotify.NewWatcher / Add / Close (Close closes both channels, as the real one does), executor (in the loop harness a command starts, yields, and is interrupted when its context was cancelled meanwhile)", "time.Sleep: the engine's polling semantics (a poller runs again when something changed or nothing else can run; pollers take turns)"},
		Replay: map[string]*ReplaySpec{"*": {PkgDir: "internal/watch", File: "C20_replay_test.go", Test: "TestVerifReplayC20"},
			"VerifC20Loop": {PkgDir: "internal/watch", File: "C20_replay_test.go", Test: "TestVerifReplayC20Loop"}}})
}
