package main

import "time"

// PropSpec describes how one property is checked.
type PropSpec struct {
	ID          string
	Jobs        func(tier string) []*Job
	Covers      []string
	Bounds      map[string]interface{}
	Outside     []string
	Assumptions []string
	Replay      map[string]*ReplaySpec
	solverDesc  string
}

const (
	pkgScheduler = modulePath + "/pkg/scheduler"
	pkgRunner    = modulePath + "/pkg/runner"
	pkgConfig    = modulePath + "/internal/config"
	pkgOutput    = modulePath + "/pkg/output"
	pkgExecutor  = modulePath + "/pkg/executor"
	pkgWatch     = modulePath + "/internal/watch"
	pkgMain      = modulePath + "/cmd/taskctl"
)

var specs = map[string]*PropSpec{}

func register(s *PropSpec) { specs[s.ID] = s }

func init() {
	register(&PropSpec{
		ID: "C05",
		Jobs: func(tier string) []*Job {
			mk := func(n, d int64) (js []*Job) {
				parts := int64(1)
				for i := int64(0); i < n; i++ {
					parts *= d + 1
				}
				for p := int64(0); p < parts; p++ {
					js = append(js, &Job{Pkg: pkgScheduler, Func: "VerifC05Graph", Args: []int64{n, d, p}, Timeout: 60 * time.Minute})
				}
				return
			}
			if tier == "thorough" {
				return append(mk(4, 3), mk(5, 2)...)
			}
			return mk(4, 2)
		},
		Covers: []string{"C05.accepted", "C05.rejected", "C05.diamond"},
		Bounds: map[string]interface{}{
			"quick":    "N=4 stages, each with 0..2 depends_on entries drawn from all 4 names (self-loops, duplicates, forward references included); cycleDfs recursion bounded by call depth 200 (unwinding assertion)",
			"thorough": "N=4 with 0..3 entries per stage and N=3 with 0..3 entries",
		},
		Outside:     []string{"more than 4 stages / more than 3 dependencies per stage", "dangling dependency names (C18)", "stage names are the fixed labels a..d in declaration order; all graphs and all declaration orders are covered up to renaming, because dependencies range over all names including later-declared ones"},
		Assumptions: []string{"go/ssa is faithful to the compiler", "engine intrinsics: map/slice/append/errors.New semantics", "z3 4.8.12"},
		Replay:      map[string]*ReplaySpec{"*": {PkgDir: "pkg/scheduler", File: "C05_replay_test.go", Test: "TestVerifReplayC05"}},
	})
}
