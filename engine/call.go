package main

import (
	"fmt"
	"go/types"
	"strings"

	"golang.org/x/tools/go/ssa"
)

// CallCtx is what an intrinsic sees.
type CallCtx struct {
	e    *Engine
	st   *State
	fr   *Frame // calling frame
	fn   *ssa.Function
	args []Value
	sig  *types.Signature
}

// Intrinsic returns (result, done). done=false means the intrinsic pushed a
// frame, blocked, or otherwise arranged for the instruction to be re-executed.
type Intrinsic func(c *CallCtx) (Value, bool)

// resolveCallee evaluates the callee of a call/defer/go: returns function,
// args (receiver first), bindings, or a thunk.
type callee struct {
	fn    *ssa.Function
	args  []Value
	binds []Value
	thunk *Thunk
	bi    *ssa.Builtin
	nat   *NativeFn
}

func (e *Engine) resolveCallee(st *State, fr *Frame, cc *ssa.CallCommon) callee {
	args := make([]Value, 0, len(cc.Args)+1)
	if cc.IsInvoke() {
		iv := e.val(st, fr, cc.Value).(IfaceV)
		e.checkPanic(st, e.ifaceIsNil(iv), "nil-deref", "method call on nil interface "+cc.Method.Name())
		var alts []IfaceAlt
		for _, a := range iv.Alts {
			if a.T != nil {
				alts = append(alts, a)
			}
		}
		k := 0
		if len(alts) > 1 {
			conds := make([]*Term, len(alts))
			for i, a := range alts {
				conds[i] = a.G
			}
			// make exhaustive under pc: fold the remainder into the last
			k = e.fork(st, conds)
		}
		a := alts[k]
		fn := e.w.prog.LookupMethod(a.T, cc.Method.Pkg(), cc.Method.Name())
		if fn == nil {
			panic(pathEnd{kind: "unmodelled", msg: fmt.Sprintf("no method %s on %s", cc.Method.Name(), a.T)})
		}
		args = append(args, a.V)
		for _, x := range cc.Args {
			args = append(args, e.val(st, fr, x))
		}
		return callee{fn: fn, args: args}
	}
	for _, x := range cc.Args {
		args = append(args, e.val(st, fr, x))
	}
	switch v := cc.Value.(type) {
	case *ssa.Builtin:
		return callee{bi: v, args: args}
	case *ssa.Function:
		return callee{fn: v, args: args}
	}
	fv := e.val(st, fr, cc.Value).(FuncV)
	k := 0
	if len(fv.Alts) > 1 {
		conds := make([]*Term, len(fv.Alts))
		for i, a := range fv.Alts {
			conds[i] = a.G
		}
		k = e.fork(st, conds)
	}
	a := fv.Alts[k]
	if a.Thunk != nil {
		return callee{thunk: a.Thunk}
	}
	if a.Native != nil {
		return callee{nat: a.Native, args: args}
	}
	if a.Fn == nil {
		e.goPanic(st, "nil-deref", "call of nil function", nil)
	}
	return callee{fn: a.Fn, args: args, binds: a.Binds}
}

func (e *Engine) execCall(st *State, fr *Frame, x *ssa.Call) {
	c := e.resolveCallee(st, fr, &x.Call)
	if c.bi != nil {
		res := e.builtin(st, fr, c.bi, c.args, x.Call.Args, x.Type())
		e.setReg(fr, x, res)
		e.advance(st, fr)
		return
	}
	if c.thunk != nil {
		e.callThunk(st, c.thunk, x)
		return
	}
	if c.nat != nil {
		res, done := nativeFns[c.nat.Name](&CallCtx{e: e, st: st, fr: fr, args: c.args}, c.nat.Data)
		if done {
			if res != nil {
				e.setReg(fr, x, res)
			} else {
				e.setReg(fr, x, TupleV{})
			}
			e.advance(st, fr)
		}
		return
	}
	res, done := e.invoke(st, fr, c.fn, c.args, c.binds, x, false)
	if done {
		if res == nil && x.Type() != nil {
			if tt, ok := x.Type().(*types.Tuple); !ok || tt.Len() > 0 {
				res = e.zero(x.Type())
			}
		}
		e.setReg(fr, x, res)
		e.advance(st, fr)
	}
}

func (e *Engine) callThunk(st *State, t *Thunk, ret ssa.Value) {
	a := t.Fn.Alts[0]
	nf := e.pushFrame(st, a.Fn, t.Args, a.Binds)
	nf.RetReg = ret
}

// invoke calls fn. retReg is the register receiving the result (normal
// calls); stay=true makes the callee return into caller.Scratch without
// advancing (callbacks, deferred calls use IsDefer instead).
func (e *Engine) invoke(st *State, fr *Frame, fn *ssa.Function, args, binds []Value, retReg ssa.Value, stay bool) (Value, bool) {
	name := fn.String()
	if fn.Origin() != nil {
		name = fn.Origin().String()
	}
	// 1. harness redirect
	if rd, ok := st.redirect[name]; ok {
		a := rd.Alts[0]
		nf := e.pushFrame(st, a.Fn, args, a.Binds)
		nf.RetReg = retReg
		nf.RetStay = stay
		e.res.useStub(name)
		return nil, false
	}
	pkg := ""
	if fn.Pkg != nil {
		pkg = fn.Pkg.Pkg.Path()
	} else if o := fn.Object(); o != nil && o.Pkg() != nil {
		pkg = o.Pkg().Path()
	} else if fn.Origin() != nil && fn.Origin().Pkg != nil {
		pkg = fn.Origin().Pkg.Pkg.Path()
	}
	if fn.Synthetic == "package initializer" && (pkg == rtPath || !strings.HasPrefix(pkg, modulePath)) {
		return nil, true // library package initialisers are not run
	}
	// 2. verifrt
	if pkg == rtPath {
		return e.rtCall(&CallCtx{e: e, st: st, fr: fr, fn: fn, args: args, sig: fn.Signature})
	}
	// 3. intrinsics
	if in, ok := intrinsics[name]; ok {
		e.res.useIntrinsic(name)
		return in(&CallCtx{e: e, st: st, fr: fr, fn: fn, args: args, sig: fn.Signature})
	}
	// 4. package policy
	switch {
	case strings.HasPrefix(pkg, modulePath):
		e.res.useFunc(e, fn)
	case fn.Name() == "init" && fn.Signature.Recv() == nil && fn.Parent() == nil:
		return nil, true // library package initialisers are not run
	case pkg == "github.com/sirupsen/logrus":
		return e.logrusCall(st, fn, args)
	case transparentPkgs[pkg] || transparentFuncs[name]:
		e.res.useTransparent(name)
	case fn.Synthetic != "" && (strings.HasPrefix(fn.Synthetic, "wrapper") || strings.HasPrefix(fn.Synthetic, "bound") || strings.HasPrefix(fn.Synthetic, "thunk") || strings.HasPrefix(fn.Synthetic, "instance")):
		// wrappers delegate to the real method, which is dispatched again
	default:
		panic(pathEnd{kind: "unmodelled", msg: "call to " + name + " at " + e.pos(e.curInstr)})
	}
	nf := e.pushFrame(st, fn, args, binds)
	nf.RetReg = retReg
	nf.RetStay = stay
	return nil, false
}

// callFunc calls a func value from an intrinsic; the result arrives in
// fr.Scratch with fr.CallDone set, and the instruction is re-executed.
func (e *Engine) callFunc(st *State, fr *Frame, f FuncV, args []Value, onRet func(e *Engine, st *State, res Value)) {
	if len(f.Alts) != 1 || f.Alts[0].Fn == nil && f.Alts[0].Thunk == nil {
		panic(pathEnd{kind: "unmodelled", msg: "callback through symbolic/nil func value"})
	}
	a := f.Alts[0]
	var nf *Frame
	if a.Thunk != nil {
		ta := a.Thunk.Fn.Alts[0]
		nf = e.pushFrame(st, ta.Fn, a.Thunk.Args, ta.Binds)
	} else {
		// the callee may itself be redirected / intrinsic: go through invoke
		res, done := e.invoke(st, fr, a.Fn, args, a.Binds, nil, true)
		if done {
			fr.CallDone = true
			fr.Scratch = res
			if onRet != nil {
				onRet(e, st, res)
			}
			return
		}
		nf = st.frame()
	}
	nf.RetStay = true
	nf.RetReg = nil
	nf.OnRet = onRet
}

var transparentPkgs = map[string]bool{
	"errors":        false,
	"bufio":         true,
	"sort":          true,
	"path":          true,
	"unicode/utf8":  true,
	"unicode":       true,
	"mvdan.cc/sh/v3/expand": true,
	"slices":        true,
	"cmp":           true,
	"internal/stringslite": true,
}

var transparentFuncs = map[string]bool{
	"errors.New":                  true,
	"(*errors.errorString).Error": true,
	"(*fmt.wrapError).Error":      true,
	"(*fmt.wrapError).Unwrap":     true,
	"io.MultiWriter":              true,
	"(*io.multiWriter).Write":     true,
	"mvdan.cc/sh/v3/interp.IsExitStatus":  true,
	"mvdan.cc/sh/v3/interp.NewExitStatus": true,
	"(mvdan.cc/sh/v3/interp.exitStatus).Error": true,
	"strings.Title": false,
	"strings.NewReader": true,
	"bytes.IndexByte": false,
	"(*strings.Builder).String": false,
	"path/filepath.Join": false,
	"path/filepath.IsAbs": true,
	"path/filepath.Dir": false,
	"os.IsNotExist": false,
	"(time.Duration).String": false,
}

func (e *Engine) logrusCall(st *State, fn *ssa.Function, args []Value) (Value, bool) {
	n := fn.Name()
	switch {
	case strings.HasPrefix(n, "Fatal") || n == "Exit":
		panic(pathEnd{kind: "abort", msg: "logrus." + n + " at " + e.pos(e.curInstr)})
	case strings.HasPrefix(n, "Panic"):
		e.goPanic(st, "explicit", "logrus."+n, nil)
	}
	e.res.useStub("github.com/sirupsen/logrus.* (no-op)")
	if fn.Signature.Results().Len() == 0 {
		return nil, true
	}
	return e.zero(fn.Signature.Results()), true
}

// ---- defer / go ----

func (e *Engine) execDefer(st *State, fr *Frame, x *ssa.Defer) {
	c := e.resolveCallee(st, fr, &x.Call)
	d := DeferRec{}
	switch {
	case c.bi != nil:
		bi, args, argv := c.bi, c.args, x.Call.Args
		d.Go = func(e *Engine, st *State) {
			e.builtin(st, st.frame(), bi, args, argv, nil)
		}
	case c.thunk != nil:
		d.Fn = FuncV{[]FuncAlt{{G: e.ts.T, Thunk: c.thunk}}}
	case c.nat != nil:
		nat, args := c.nat, c.args
		d.Go = func(e *Engine, st *State) {
			nativeFns[nat.Name](&CallCtx{e: e, st: st, fr: st.frame(), args: args}, nat.Data)
		}
	default:
		d.Fn = e.mkFunc(c.fn, c.binds)
		d.Args = c.args
	}
	fr.Defers = append(fr.Defers, d)
	e.advance(st, fr)
}

// runDeferred starts the LAST deferred call of frame fr; control comes back to the
// same RunDefers instruction (or to the unwinder). The record is removed only once
// the call has completed or its frame has been pushed, so that a context switch or
// fork inside a deferred intrinsic (e.g. mutex / WaitGroup operations) re-executes it.
func (e *Engine) runDeferred(st *State, fr *Frame, _ DeferRec) {
	d := fr.Defers[len(fr.Defers)-1]
	pop := func() {
		fr.Defers = fr.Defers[:len(fr.Defers)-1]
		fr.Yielded = false
		fr.HookDone = false
		st.decisions = st.decisions[:0]
		st.decPos = 0
	}
	if d.Go != nil {
		d.Go(e, st)
		pop()
		return
	}
	a := d.Fn.Alts[0]
	if a.Thunk != nil {
		pop()
		ta := a.Thunk.Fn.Alts[0]
		nf := e.pushFrame(st, ta.Fn, a.Thunk.Args, ta.Binds)
		nf.IsDefer = true
		return
	}
	before := len(st.thread().Frames)
	_, done := e.invoke(st, fr, a.Fn, d.Args, a.Binds, nil, false)
	if done {
		pop()
		return
	}
	if len(st.thread().Frames) > before {
		st.frame().IsDefer = true
		pop()
	}
	// otherwise the intrinsic blocked: the record stays and is retried
}

func (e *Engine) execGo(st *State, fr *Frame, x *ssa.Go) {
	c := e.resolveCallee(st, fr, &x.Call)
	if c.bi != nil || c.thunk != nil {
		panic(pathEnd{kind: "unmodelled", msg: "go builtin/thunk"})
	}
	th := &Thunk{Fn: e.mkFunc(c.fn, c.binds), Args: c.args, Pos: e.pos(x)}
	if st.onGo != nil {
		if !fr.CallDone {
			e.callFunc(st, fr, *st.onGo, []Value{FuncV{[]FuncAlt{{G: e.ts.T, Thunk: th}}}}, nil)
			return
		}
		e.advance(st, fr)
		return
	}
	if len(st.threads) >= 24 {
		panic(pathEnd{kind: "limit", msg: "more than 24 goroutines on one path (unbounded goroutine creation?) at " + e.pos(x)})
	}
	nt := &Thread{ID: len(st.threads), Name: c.fn.Name()}
	st.threads = append(st.threads, nt)
	cur := st.cur
	st.cur = nt.ID
	nf := e.pushFrame(st, c.fn, c.args, c.binds)
	_ = nf
	st.cur = cur
	e.advance(st, fr)
}

// ---- builtins ----

func (e *Engine) builtin(st *State, fr *Frame, bi *ssa.Builtin, args []Value, argv []ssa.Value, rt types.Type) Value {
	ts := e.ts
	switch bi.Name() {
	case "len":
		switch a := args[0].(type) {
		case *Term:
			return ts.StrLen(a)
		case SliceV:
			return a.Len
		case Ptr:
			switch argv[0].Type().Underlying().(type) {
			case *types.Map:
				return e.mapLen(st, a)
			case *types.Chan:
				o, _, ok := a.concrete()
				if !ok || o == 0 {
					return ts.Int(0)
				}
				return ts.Int(int64(len(st.obj(o).Buf)))
			case *types.Pointer:
				return ts.Int(argv[0].Type().Underlying().(*types.Pointer).Elem().Underlying().(*types.Array).Len())
			}
		case ArrayV:
			return ts.Int(int64(len(a.E)))
		}
	case "cap":
		switch a := args[0].(type) {
		case SliceV:
			return a.Cap
		case ArrayV:
			return ts.Int(int64(len(a.E)))
		case Ptr:
			if o, _, ok := a.concrete(); ok && o != 0 {
				return ts.Int(int64(st.obj(o).Cap))
			}
			return ts.Int(0)
		}
	case "append":
		return e.appendSlice(st, args[0].(SliceV), args[1], argv[0].Type(), argv[1].Type())
	case "copy":
		return e.copySlice(st, args[0].(SliceV), args[1], argv[0].Type(), argv[1].Type())
	case "delete":
		m := args[0].(Ptr)
		if !m.isNilConst() {
			e.mapUpdate(st, m, e.mapKey(st, args[1]), nil)
		}
		return nil
	case "close":
		p := args[0].(Ptr)
		o, _, ok := p.concrete()
		if !ok {
			panic(pathEnd{kind: "unmodelled", msg: "close of symbolic channel"})
		}
		if o == 0 {
			e.goPanic(st, "close-nil", "close of nil channel", nil)
		}
		e.yieldPoint(st, fr)
		if st.obj(o).Closed {
			e.goPanic(st, "close-closed", "close of closed channel", nil)
		}
		st.wobj(o).Closed = true
		st.progress++
		return nil
	case "panic":
		e.goPanic(st, "explicit", "panic", args[0])
	case "recover":
		th := st.thread()
		// fr is the deferred function's frame; it must have been called directly by the unwinder
		if th.Panicking != nil && fr.IsDefer {
			p := th.Panicking
			th.Panicking = nil
			if len(th.Frames) >= 2 {
				th.Frames[len(th.Frames)-2].Recovered = true
			}
			if p.Val != nil {
				return p.Val
			}
			return e.mkIface(types.Typ[types.String], ts.StrC(p.Msg))
		}
		return e.nilIface()
	case "print", "println":
		return nil
	case "min", "max":
		a, b := args[0].(*Term), args[1].(*Term)
		var lt *Term
		if isSigned(argv[0].Type()) {
			lt = ts.BvCmp(OBvSlt, a, b)
		} else {
			lt = ts.BvCmp(OBvUlt, a, b)
		}
		if bi.Name() == "min" {
			return ts.Ite(lt, a, b)
		}
		return ts.Ite(lt, b, a)
	case "ssa:wrapnilchk":
		p := args[0].(Ptr)
		e.checkNonNil(st, p)
		return p
	}
	panic(pathEnd{kind: "unmodelled", msg: "builtin " + bi.Name() + " at " + e.pos(e.curInstr)})
}

func (e *Engine) appendSlice(st *State, s SliceV, more Value, st0, mt types.Type) Value {
	ts := e.ts
	elem := st0.Underlying().(*types.Slice).Elem()
	c := e.cells(elem)
	// gather the appended elements
	var items []Value
	switch m := more.(type) {
	case *Term: // append([]byte, string...)
		n := e.concretize(st, ts.StrLen(m), e.job.MaxLen, "append string length")
		for i := 0; i < n; i++ {
			items = append(items, ts.Extract(ts.StrToCode(ts.StrAt(m, ts.Int(int64(i)))), 7, 0))
		}
	case SliceV:
		n := e.concretize(st, m.Len, e.job.MaxLen, "append length")
		for i := 0; i < n; i++ {
			items = append(items, e.load(st, e.ptrAdd(m.P, i*c), elem))
		}
	}
	if len(items) == 0 {
		return s
	}
	ln := e.concretize(st, s.Len, e.job.MaxLen*4, "slice length")
	cp := e.concretize(st, s.Cap, e.job.MaxLen*8+16, "slice capacity")
	if ln+len(items) <= cp {
		// in place (Go's rule): requires a concrete backing pointer or conditional stores
		for i, it := range items {
			e.store(st, e.ptrAdd(s.P, (ln+i)*c), elem, it)
		}
		return SliceV{P: s.P, Len: ts.Int(int64(ln + len(items))), Cap: s.Cap}
	}
	ncap := ln + len(items)
	if ncap < 2*cp {
		ncap = 2 * cp
	}
	np := e.allocArray(st, elem, ncap)
	for i := 0; i < ln; i++ {
		e.store(st, e.ptrAdd(np, i*c), elem, e.load(st, e.ptrAdd(s.P, i*c), elem))
	}
	for i, it := range items {
		e.store(st, e.ptrAdd(np, (ln+i)*c), elem, it)
	}
	return SliceV{P: np, Len: ts.Int(int64(ln + len(items))), Cap: ts.Int(int64(ncap))}
}

func (e *Engine) copySlice(st *State, dst SliceV, src Value, dt, stp types.Type) Value {
	ts := e.ts
	elem := dt.Underlying().(*types.Slice).Elem()
	c := e.cells(elem)
	dn := e.concretize(st, dst.Len, e.job.MaxLen*4, "copy dst length")
	var items []Value
	switch m := src.(type) {
	case *Term:
		n := e.concretize(st, ts.StrLen(m), e.job.MaxLen, "copy string length")
		for i := 0; i < n && i < dn; i++ {
			items = append(items, ts.Extract(ts.StrToCode(ts.StrAt(m, ts.Int(int64(i)))), 7, 0))
		}
	case SliceV:
		n := e.concretize(st, m.Len, e.job.MaxLen*4, "copy src length")
		for i := 0; i < n && i < dn; i++ {
			items = append(items, e.load(st, e.ptrAdd(m.P, i*c), elem))
		}
	}
	for i, it := range items {
		e.store(st, e.ptrAdd(dst.P, i*c), elem, it)
	}
	return ts.Int(int64(len(items)))
}

// ---- threads ----

func (e *Engine) enabled(st *State) []int {
	var out []int
	for i, t := range st.threads {
		if t.Done {
			continue
		}
		if t.Wait != nil {
			if !t.Wait(e, st) {
				continue
			}
		}
		out = append(out, i)
	}
	return out
}

// yieldPoint offers a context switch before a visible operation.
func (e *Engine) yieldPoint(st *State, fr *Frame) {
	if !st.threadMode || fr.Yielded || st.inHook > 0 {
		return
	}
	en := e.enabled(st)
	if len(en) <= 1 {
		fr.Yielded = true
		return
	}
	if st.preemptBound >= 0 && st.preemptions >= st.preemptBound {
		fr.Yielded = true
		return
	}
	k := e.choose(st, len(en))
	fr.Yielded = true
	if en[k] != st.cur {
		st.preemptions++
		e.switchTo(st, en[k])
	}
}

func (e *Engine) switchTo(st *State, tid int) {
	st.cur = tid
	t := st.threads[tid]
	t.Wait = nil
	t.WaitDesc = ""
	t.Sleeping = false
	st.decisions = st.decisions[:0]
	st.decPos = 0
	panic(reschedSignal{})
}

// block suspends the current thread until cond holds.
func (e *Engine) block(st *State, desc string, cond func(e *Engine, st *State) bool) {
	th := st.thread()
	th.Wait = cond
	th.WaitDesc = desc
	st.decisions = st.decisions[:0]
	st.decPos = 0
	e.schedule(st)
}

// schedule picks the next thread when the current one cannot continue.
func (e *Engine) schedule(st *State) {
	main := st.threads[0]
	if main.Done {
		panic(pathEnd{kind: "done"})
	}
	en := e.enabled(st)
	if len(en) == 0 {
		var ds []string
		for _, t := range st.threads {
			if !t.Done && t.Wait != nil {
				ds = append(ds, fmt.Sprintf("t%d(%s): %s", t.ID, t.Name, t.WaitDesc))
			}
		}
		panic(pathEnd{kind: "deadlock", msg: strings.Join(ds, "; ")})
	}
	k := 0
	if len(en) > 1 {
		k = e.choose(st, len(en))
	}
	e.switchTo(st, en[k])
}

// ---- channels ----

func (e *Engine) chanObj(st *State, v Value) int {
	p := v.(Ptr)
	o, _, ok := p.concrete()
	if !ok {
		panic(pathEnd{kind: "unmodelled", msg: "symbolic channel"})
	}
	return o
}

func (e *Engine) execRecv(st *State, fr *Frame, x *ssa.UnOp) {
	id := e.chanObj(st, e.val(st, fr, x.X))
	et := x.X.Type().Underlying().(*types.Chan).Elem()
	if id == 0 {
		e.block(st, "receive from nil channel", func(*Engine, *State) bool { return false })
		return
	}
	e.yieldPoint(st, fr)
	o := st.obj(id)
	if len(o.Buf) == 0 && !o.Closed {
		e.block(st, fmt.Sprintf("receive on channel o%d at %s", id, e.pos(x)), func(e *Engine, s *State) bool {
			oo := s.obj(id)
			return len(oo.Buf) > 0 || oo.Closed
		})
		return
	}
	var v Value
	ok := e.ts.T
	if len(o.Buf) > 0 {
		w := st.wobj(id)
		v = w.Buf[0]
		w.Buf = append([]Value(nil), w.Buf[1:]...)
		st.progress++
	} else {
		v = e.zero(et)
		ok = e.ts.F
	}
	if x.CommaOk {
		e.setReg(fr, x, TupleV{v, ok})
	} else {
		e.setReg(fr, x, v)
	}
	e.advance(st, fr)
}

func (e *Engine) execSend(st *State, fr *Frame, x *ssa.Send) {
	id := e.chanObj(st, e.val(st, fr, x.Chan))
	if id == 0 {
		e.block(st, "send on nil channel", func(*Engine, *State) bool { return false })
		return
	}
	e.yieldPoint(st, fr)
	o := st.obj(id)
	if o.Closed {
		e.goPanic(st, "send-closed", "send on closed channel", nil)
	}
	// unbuffered channels are modelled as capacity-1 hand-off (rendezvous is over-approximated)
	cp := o.Cap
	if cp == 0 {
		cp = 1
	}
	if len(o.Buf) >= cp {
		e.block(st, fmt.Sprintf("send on channel o%d", id), func(e *Engine, s *State) bool {
			oo := s.obj(id)
			c := oo.Cap
			if c == 0 {
				c = 1
			}
			return len(oo.Buf) < c || oo.Closed
		})
		return
	}
	w := st.wobj(id)
	w.Buf = append(append([]Value(nil), w.Buf...), e.val(st, fr, x.X))
	st.progress++
	e.advance(st, fr)
}

func (e *Engine) execSelect(st *State, fr *Frame, x *ssa.Select) {
	e.yieldPoint(st, fr)
	type rdy struct{ idx int }
	var ready []int
	for i, s := range x.States {
		id := e.chanObj(st, e.val(st, fr, s.Chan))
		if id == 0 {
			continue
		}
		o := st.obj(id)
		if s.Dir == types.RecvOnly {
			if len(o.Buf) > 0 || o.Closed {
				ready = append(ready, i)
			}
		} else {
			cp := o.Cap
			if cp == 0 {
				cp = 1
			}
			if len(o.Buf) < cp || o.Closed {
				ready = append(ready, i)
			}
		}
	}
	tt := x.Type().(*types.Tuple)
	mk := func(idx int, recvOk *Term, recv map[int]Value) Value {
		tv := make(TupleV, tt.Len())
		tv[0] = e.ts.Int(int64(idx))
		tv[1] = recvOk
		j := 2
		for i, s := range x.States {
			if s.Dir == types.RecvOnly {
				if v, ok := recv[i]; ok {
					tv[j] = v
				} else {
					tv[j] = e.zero(tt.At(j).Type())
				}
				j++
			}
		}
		return tv
	}
	if len(ready) == 0 {
		if !x.Blocking {
			e.setReg(fr, x, mk(-1, e.ts.F, nil))
			e.advance(st, fr)
			return
		}
		states := x.States
		frc := fr
		_ = frc
		var ids []int
		var dirs []types.ChanDir
		for _, s := range states {
			ids = append(ids, e.chanObj(st, e.val(st, fr, s.Chan)))
			dirs = append(dirs, s.Dir)
		}
		e.block(st, "select at "+e.pos(x), func(e *Engine, s *State) bool {
			for i, id := range ids {
				if id == 0 {
					continue
				}
				o := s.obj(id)
				if dirs[i] == types.RecvOnly {
					if len(o.Buf) > 0 || o.Closed {
						return true
					}
				} else if len(o.Buf) < max(o.Cap, 1) || o.Closed {
					return true
				}
			}
			return false
		})
		return
	}
	k := 0
	if len(ready) > 1 {
		k = e.choose(st, len(ready))
	}
	i := ready[k]
	s := x.States[i]
	id := e.chanObj(st, e.val(st, fr, s.Chan))
	if s.Dir == types.RecvOnly {
		o := st.obj(id)
		if len(o.Buf) > 0 {
			w := st.wobj(id)
			v := w.Buf[0]
			w.Buf = append([]Value(nil), w.Buf[1:]...)
			e.setReg(fr, x, mk(i, e.ts.T, map[int]Value{i: v}))
		} else {
			e.setReg(fr, x, mk(i, e.ts.F, nil))
		}
	} else {
		o := st.obj(id)
		if o.Closed {
			e.goPanic(st, "send-closed", "send on closed channel", nil)
		}
		w := st.wobj(id)
		w.Buf = append(append([]Value(nil), w.Buf...), e.val(st, fr, s.Send))
		e.setReg(fr, x, mk(i, e.ts.F, nil))
	}
	st.progress++
	e.advance(st, fr)
}
