package main

import (
	"fmt"
	"go/constant"
	"go/token"
	"go/types"
	"math"
	"strings"
	"time"

	"golang.org/x/tools/go/ssa"
)

const modulePath = "github.com/taskctl/taskctl"
const rtPath = modulePath + "/internal/verifrt"

// Engine is one worker: its own term store, solver process and worklist.
type Engine struct {
	w         *World
	ts        *TermStore
	solver    *Solver
	cross     *Solver
	cellCache map[types.Type]int
	fnInfos   map[*ssa.Function]*FnInfo
	work      []*State
	res       *JobResult
	job       *Job
	deadline  time.Time
	errType   types.Type // *errors.errorString
	wrapType  types.Type // *fmt.wrapError
	ctxType   types.Type // *context.cancelCtx
	trace     bool
	curInstr  ssa.Instruction
}

func (e *Engine) pos(in ssa.Instruction) string {
	if in == nil {
		return "?"
	}
	p := e.w.prog.Fset.Position(in.Pos())
	fn := ""
	if in.Parent() != nil {
		fn = in.Parent().String()
	}
	if !p.IsValid() {
		return fn
	}
	return fmt.Sprintf("%s:%d (%s)", trimRepo(p.Filename), p.Line, fn)
}

func trimRepo(f string) string {
	if i := strings.Index(f, "/repo/"); i >= 0 {
		return f[i+6:]
	}
	if i := strings.Index(f, "/pkg/mod/"); i >= 0 {
		return f[i+9:]
	}
	return f
}

// ---- path condition & forking ----

func (e *Engine) addPC(st *State, c *Term) {
	if c.IsTrue() {
		return
	}
	st.pc = append(st.pc, c)
}

// feasible checks pc ∧ c, reusing the state's witness model when it already
// satisfies c.
func (e *Engine) feasible(st *State, c *Term) (bool, Model) {
	if c.IsFalse() {
		return false, nil
	}
	if c.IsTrue() {
		return true, st.model
	}
	if st.model != nil && e.ts.EvalBool(c, st.model) {
		e.solver.Stats.ModelReuse++
		return true, st.model
	}
	q := append(append([]*Term(nil), st.pc...), c)
	r, m := e.solver.Check(q, true)
	if e.res.QueryPos != nil {
		e.res.QueryPos[e.pos(e.curInstr)+" "+r.String()]++
	}
	switch r {
	case Sat:
		return true, m
	case Unknown:
		e.res.Unknown++
		e.res.note("solver unknown at " + e.pos(e.curInstr))
		if e.res.Unknown >= 3 {
			// the job is inconclusive anyway: do not burn the budget on more timeouts
			panic(pathEnd{kind: "giveup", msg: "3 solver timeouts/unknowns in this job"})
		}
		return false, nil
	}
	return false, nil
}

// fork picks one of the exhaustive, pairwise exclusive conditions; when several
// are feasible the state is cloned once per alternative and the current
// instruction is re-executed in each clone (no mutation may precede a fork
// within one instruction).
func (e *Engine) fork(st *State, conds []*Term) int {
	if st.decPos < len(st.decisions) {
		k := st.decisions[st.decPos]
		st.decPos++
		return k
	}
	var feas []int
	models := make([]Model, len(conds))
	for i, c := range conds {
		ok, m := e.feasible(st, c)
		if ok {
			feas = append(feas, i)
			models[i] = m
		}
	}
	if len(feas) == 0 {
		panic(pathEnd{kind: "infeasible"})
	}
	st.branches++
	if len(feas) == 1 {
		k := feas[0]
		st.decisions = append(st.decisions[:st.decPos], k)
		st.decPos++
		return k
	}
	prefix := append([]int(nil), st.decisions[:st.decPos]...)
	for j := len(feas) - 1; j >= 0; j-- {
		k := feas[j]
		c := st.clone()
		e.addPC(c, conds[k])
		c.model = models[k]
		c.decisions = append(append([]int(nil), prefix...), k)
		c.decPos = 0
		e.work = append(e.work, c)
	}
	e.res.Forks++
	panic(forkSignal{})
}

// branch returns the truth value of c on this path (forking if undetermined).
func (e *Engine) branch(st *State, c *Term) bool {
	if c.IsTrue() {
		return true
	}
	if c.IsFalse() {
		return false
	}
	return e.fork(st, []*Term{c, e.ts.Not(c)}) == 0
}

// choose forks n ways without conditions (scheduling decisions).
func (e *Engine) choose(st *State, n int) int {
	conds := make([]*Term, n)
	for i := range conds {
		conds[i] = e.ts.T
	}
	if st.decPos < len(st.decisions) {
		k := st.decisions[st.decPos]
		st.decPos++
		return k
	}
	if n == 1 {
		st.decisions = append(st.decisions[:st.decPos], 0)
		st.decPos++
		return 0
	}
	prefix := append([]int(nil), st.decisions[:st.decPos]...)
	for k := n - 1; k >= 0; k-- {
		c := st.clone()
		c.decisions = append(append([]int(nil), prefix...), k)
		c.decPos = 0
		e.work = append(e.work, c)
	}
	e.res.Forks++
	st.branches++
	panic(forkSignal{})
}

// concretize returns a concrete value for t, forking over its feasible values
// (found by model enumeration with blocking clauses; values above max are an
// unwinding failure). The decision recorded for re-execution is the value itself.
func (e *Engine) concretize(st *State, t *Term, max int, what string) int {
	if t.IsConst() {
		return int(signed(t.BV, t.S.W))
	}
	if st.decPos < len(st.decisions) {
		k := st.decisions[st.decPos]
		st.decPos++
		return k
	}
	ts := e.ts
	var vals []int
	var models []Model
	var conds []*Term
	var block []*Term
	for {
		ok, m := e.feasible(st, ts.And(block...))
		if !ok {
			break
		}
		cv := ts.Eval(t, m)
		v := int(signed(cv.BV, t.S.W))
		if v < 0 || v > max {
			panic(pathEnd{kind: "unwind", msg: fmt.Sprintf("%s can be %d, outside bound %d, at %s", what, v, max, e.pos(e.curInstr))})
		}
		eq := ts.Eq(t, ts.BV(cv.BV, t.S.W))
		vals = append(vals, v)
		models = append(models, m)
		conds = append(conds, eq)
		block = append(block, ts.Not(eq))
		if len(vals) > max+1 {
			break
		}
	}
	if len(vals) == 0 {
		panic(pathEnd{kind: "infeasible"})
	}
	st.branches++
	if len(vals) == 1 {
		st.decisions = append(st.decisions[:st.decPos], vals[0])
		st.decPos++
		return vals[0]
	}
	prefix := append([]int(nil), st.decisions[:st.decPos]...)
	for j := len(vals) - 1; j >= 0; j-- {
		c := st.clone()
		e.addPC(c, conds[j])
		c.model = models[j]
		c.decisions = append(append([]int(nil), prefix...), vals[j])
		c.decPos = 0
		e.work = append(e.work, c)
	}
	e.res.Forks++
	panic(forkSignal{})
}

// goPanic raises a Go panic in the interpreted thread.
func (e *Engine) goPanic(st *State, kind, msg string, val Value) {
	th := st.thread()
	th.Panicking = &PanicInfo{Kind: kind, Msg: msg, Val: val, Pos: e.pos(e.curInstr)}
	st.decisions = nil
	st.decPos = 0
	panic(reschedSignal{})
}

// checkPanic forks on cond; on the cond side the interpreted thread panics.
func (e *Engine) checkPanic(st *State, cond *Term, kind, msg string) {
	if cond.IsFalse() {
		return
	}
	if e.branch(st, cond) {
		e.goPanic(st, kind, msg, nil)
	}
}

// ---- memory ----

func (e *Engine) checkNonNil(st *State, p Ptr) {
	e.checkPanic(st, e.ptrIsNil(p), "nil-deref", "invalid memory address or nil pointer dereference")
}

func (e *Engine) load(st *State, p Ptr, t types.Type) Value {
	n := e.cells(t)
	if n == 0 {
		return e.zero(t)
	}
	var gs []*Term
	var vs []Value
	for _, a := range p.Alts {
		if a.Obj == 0 {
			continue
		}
		o := st.obj(a.Obj)
		if a.Off < 0 || a.Off+n > len(o.Cells) {
			// out-of-range alternative (e.g. one-past-the-end element of a union): unreachable under pc
			continue
		}
		v, _ := e.unflatten(t, o.Cells[a.Off:a.Off+n])
		gs = append(gs, a.G)
		vs = append(vs, v)
	}
	if len(vs) == 0 {
		panic(fmt.Sprintf("load: no valid target for %s at %s", e.showVal(p), e.pos(e.curInstr)))
	}
	return e.mergeVals(gs, vs)
}

func (e *Engine) store(st *State, p Ptr, t types.Type, v Value) {
	n := e.cells(t)
	if n == 0 {
		return
	}
	flat := e.flatten(t, v, nil)
	nn := 0
	for _, a := range p.Alts {
		if a.Obj != 0 {
			nn++
		}
	}
	for _, a := range p.Alts {
		if a.Obj == 0 {
			continue
		}
		o := st.wobj(a.Obj)
		if a.Off < 0 || a.Off+n > len(o.Cells) {
			continue
		}
		for i := 0; i < n; i++ {
			if nn == 1 {
				o.Cells[a.Off+i] = flat[i]
			} else {
				o.Cells[a.Off+i] = e.ite(a.G, flat[i], o.Cells[a.Off+i])
			}
		}
	}
}

func (e *Engine) alloc(st *State, t types.Type) Ptr {
	n := e.cells(t)
	o := st.newObj(KCells, n, t)
	if n > 0 {
		copy(o.Cells, e.flatten(t, e.zero(t), nil))
	}
	return e.mkPtr(o.ID, 0)
}

// allocArray allocates n elements of type elem, zeroed.
func (e *Engine) allocArray(st *State, elem types.Type, n int) Ptr {
	c := e.cells(elem)
	o := st.newObj(KCells, n*c, elem)
	if c > 0 && n > 0 {
		z := e.flatten(elem, e.zero(elem), nil)
		for i := 0; i < n; i++ {
			copy(o.Cells[i*c:], z)
		}
	}
	return e.mkPtr(o.ID, 0)
}

func (e *Engine) global(st *State, g *ssa.Global) Ptr {
	if id, ok := st.globals[g]; ok {
		return e.mkPtr(id, 0)
	}
	et := g.Type().(*types.Pointer).Elem()
	p := e.alloc(st, et)
	id, _, _ := p.concrete()
	st.globals[g] = id
	st.obj(id).Label = g.String()
	// library error sentinels get distinct objects
	if g.Pkg != nil && !strings.HasPrefix(g.Pkg.Pkg.Path(), modulePath) {
		if types.Identical(et, types.Universe.Lookup("error").Type()) {
			e.store(st, p, et, e.newError(st, e.ts.StrC(g.Pkg.Pkg.Name()+"."+g.Name()), nil))
		}
	}
	return p
}

// newError builds an error value (*errors.errorString, or *fmt.wrapError when wrapped != nil).
func (e *Engine) newError(st *State, msg *Term, wrapped *IfaceV) IfaceV {
	if wrapped == nil {
		p := e.alloc(st, e.errType.(*types.Pointer).Elem())
		e.store(st, p, types.Typ[types.String], msg)
		return e.mkIface(e.errType, p)
	}
	et := e.wrapType.(*types.Pointer).Elem()
	p := e.alloc(st, et)
	e.store(st, p, types.Typ[types.String], msg)
	e.store(st, e.ptrAdd(p, 1), types.Universe.Lookup("error").Type(), *wrapped)
	return e.mkIface(e.wrapType, p)
}

// ---- operands ----

func (e *Engine) constVal(c *ssa.Const) Value {
	t := c.Type()
	if c.Value == nil {
		return e.zero(t)
	}
	if _, ok := t.Underlying().(*types.Interface); ok {
		return e.nilIface()
	}
	b, ok := t.Underlying().(*types.Basic)
	if !ok {
		panic(fmt.Sprintf("constVal: %v", t))
	}
	if w, ok := intWidth(b); ok {
		if i, exact := constant.Int64Val(constant.ToInt(c.Value)); exact {
			return e.ts.BV(uint64(i), w)
		}
		u, _ := constant.Uint64Val(constant.ToInt(c.Value))
		return e.ts.BV(u, w)
	}
	switch b.Kind() {
	case types.Bool, types.UntypedBool:
		return e.ts.Bool(constant.BoolVal(c.Value))
	case types.String, types.UntypedString:
		return e.ts.StrC(constant.StringVal(c.Value))
	case types.Float64, types.Float32, types.UntypedFloat:
		f, _ := constant.Float64Val(c.Value)
		return e.ts.BV(math.Float64bits(f), 64)
	}
	panic(fmt.Sprintf("constVal: %v", t))
}

func (e *Engine) val(st *State, fr *Frame, v ssa.Value) Value {
	switch x := v.(type) {
	case *ssa.Const:
		return e.constVal(x)
	case *ssa.Global:
		return e.global(st, x)
	case *ssa.Function:
		return e.mkFunc(x, nil)
	case *ssa.Builtin:
		panic("builtin used as value")
	}
	i, ok := fr.Info.Index[v]
	if !ok {
		panic(fmt.Sprintf("no register for %s in %s", v.Name(), fr.Fn))
	}
	r := fr.Regs[i]
	if r == nil {
		panic(fmt.Sprintf("unset register %s (%T) in %s", v.Name(), v, fr.Fn))
	}
	return r
}

func (e *Engine) setReg(fr *Frame, v ssa.Value, val Value) {
	fr.Regs[fr.Info.Index[v]] = val
}

func (e *Engine) advance(st *State, fr *Frame) {
	fr.IP++
	fr.HookDone = false
	fr.Yielded = false
	fr.CallDone = false
	fr.Scratch = nil
	fr.Phase = 0
	st.decisions = st.decisions[:0]
	st.decPos = 0
}

func (e *Engine) jump(st *State, fr *Frame, to *ssa.BasicBlock) {
	fr.Prev = fr.Block
	fr.Block = to
	fr.IP = 0
	fr.HookDone = false
	fr.Yielded = false
	fr.CallDone = false
	st.decisions = st.decisions[:0]
	st.decPos = 0
	if fr.Visits == nil {
		fr.Visits = map[*ssa.BasicBlock]int{}
	}
	fr.Visits[to]++
	if fr.Visits[to] > st.unwind {
		panic(pathEnd{kind: "unwind", msg: fmt.Sprintf("loop bound %d exceeded at %s", st.unwind, e.pos(to.Instrs[0]))})
	}
}

// ---- frames ----

func (e *Engine) pushFrame(st *State, fn *ssa.Function, args []Value, binds []Value) *Frame {
	if fn.Blocks == nil {
		panic(pathEnd{kind: "unmodelled", msg: "no body: " + fn.String()})
	}
	fi := e.fnInfo(fn)
	fr := &Frame{Fn: fn, Info: fi, Block: fn.Blocks[0], Regs: make([]Value, fi.N)}
	if len(args) != len(fn.Params) {
		panic(fmt.Sprintf("pushFrame %s: %d args for %d params", fn, len(args), len(fn.Params)))
	}
	for i, p := range fn.Params {
		fr.Regs[fi.Index[p]] = args[i]
	}
	for i, fv := range fn.FreeVars {
		fr.Regs[fi.Index[fv]] = binds[i]
	}
	th := st.thread()
	th.Frames = append(th.Frames, fr)
	if len(th.Frames) > 200 {
		panic(pathEnd{kind: "unwind", msg: "call depth 200 exceeded in " + fn.String()})
	}
	st.decisions = st.decisions[:0]
	st.decPos = 0
	return fr
}

// popFrame returns res to the caller.
func (e *Engine) popFrame(st *State, res Value) {
	th := st.thread()
	fr := th.top()
	th.Frames = th.Frames[:len(th.Frames)-1]
	st.decisions = st.decisions[:0]
	st.decPos = 0
	if fr.OnRet != nil {
		fr.OnRet(e, st, res)
	}
	caller := th.top()
	if caller == nil {
		th.Done = true
		th.Result = res
		st.progress++
		return
	}
	switch {
	case fr.IsDefer:
		// stay on RunDefers / unwinding
	case fr.RetReg != nil:
		e.setReg(caller, fr.RetReg, res)
		e.advance(st, caller)
	case fr.RetStay:
		caller.CallDone = true
		caller.Scratch = res
	default:
		e.advance(st, caller)
	}
}

// ---- the interpreter loop ----

func (e *Engine) runPath(st *State) (end pathEnd) {
	defer func() {
		if r := recover(); r != nil {
			switch s := r.(type) {
			case forkSignal:
				end = pathEnd{kind: "fork"}
			case pathEnd:
				end = s
			default:
				panic(r)
			}
		}
	}()
	for {
		e.stepGuarded(st)
	}
}

func (e *Engine) stepGuarded(st *State) {
	defer func() {
		if r := recover(); r != nil {
			if _, ok := r.(reschedSignal); ok {
				return
			}
			panic(r)
		}
	}()
	e.step(st)
}

func (e *Engine) step(st *State) {
	st.steps++
	if st.steps > e.job.MaxSteps {
		panic(pathEnd{kind: "limit", msg: fmt.Sprintf("step limit %d", e.job.MaxSteps)})
	}
	if st.steps&1023 == 0 && time.Now().After(e.deadline) {
		panic(pathEnd{kind: "timeout", msg: "job deadline"})
	}
	th := st.thread()
	if th.Done || th.Wait != nil {
		e.schedule(st)
		return
	}
	if th.Panicking != nil {
		e.unwind(st, th)
		return
	}
	fr := th.top()
	if fr.Recovered {
		// a deferred call recovered a panic: run the remaining defers, then return through the Recover block
		if len(fr.Defers) > 0 {
			e.runDeferred(st, fr, DeferRec{})
			return
		}
		fr.Recovered = false
		if fr.Fn.Recover != nil {
			e.jump(st, fr, fr.Fn.Recover)
			return
		}
		var res Value
		if r := fr.Fn.Signature.Results(); r.Len() == 1 {
			res = e.zero(r.At(0).Type())
		} else if r.Len() > 1 {
			res = e.zero(r)
		}
		e.popFrame(st, res)
		return
	}
	in := fr.Block.Instrs[fr.IP]
	e.curInstr = in
	if e.trace {
		fmt.Printf("[t%d d%d] %s: %s\n", th.ID, len(th.Frames), fr.Fn.Name(), in)
	}
	e.exec(st, fr, in)
}

// unwind performs one step of panic propagation.
func (e *Engine) unwind(st *State, th *Thread) {
	fr := th.top()
	if fr == nil {
		p := th.Panicking
		panic(pathEnd{kind: "panic", msg: fmt.Sprintf("%s: %s at %s", p.Kind, p.Msg, p.Pos)})
	}
	if len(fr.Defers) > 0 {
		e.runDeferred(st, fr, DeferRec{})
		return
	}
	// no more defers: drop the frame
	th.Frames = th.Frames[:len(th.Frames)-1]
	if fr.OnRet != nil {
		fr.OnRet(e, st, nil)
	}
	if len(th.Frames) == 0 {
		p := th.Panicking
		panic(pathEnd{kind: "panic", msg: fmt.Sprintf("%s: %s at %s", p.Kind, p.Msg, p.Pos)})
	}
}

func (e *Engine) exec(st *State, fr *Frame, in ssa.Instruction) {
	ts := e.ts
	switch x := in.(type) {
	case *ssa.DebugRef:
		e.advance(st, fr)
	case *ssa.Alloc:
		p := e.alloc(st, x.Type().(*types.Pointer).Elem())
		e.setReg(fr, x, p)
		e.advance(st, fr)
	case *ssa.Phi:
		// evaluate all phis of the block simultaneously
		var vals []Value
		var phis []*ssa.Phi
		for _, pi := range fr.Block.Instrs[fr.IP:] {
			ph, ok := pi.(*ssa.Phi)
			if !ok {
				break
			}
			idx := -1
			for i, pred := range fr.Block.Preds {
				if pred == fr.Prev {
					idx = i
					break
				}
			}
			if idx < 0 {
				panic("phi: predecessor not found")
			}
			vals = append(vals, e.val(st, fr, ph.Edges[idx]))
			phis = append(phis, ph)
		}
		for i, ph := range phis {
			e.setReg(fr, ph, vals[i])
		}
		fr.IP += len(phis) - 1
		e.advance(st, fr)
	case *ssa.BinOp:
		e.setReg(fr, x, e.binop(st, x.Op, x.X.Type(), e.val(st, fr, x.X), e.val(st, fr, x.Y), x.Y.Type()))
		e.advance(st, fr)
	case *ssa.UnOp:
		e.execUnOp(st, fr, x)
	case *ssa.ChangeType:
		e.setReg(fr, x, e.val(st, fr, x.X))
		e.advance(st, fr)
	case *ssa.ChangeInterface:
		e.setReg(fr, x, e.val(st, fr, x.X))
		e.advance(st, fr)
	case *ssa.Convert:
		e.setReg(fr, x, e.convert(st, x.X.Type(), x.Type(), e.val(st, fr, x.X)))
		e.advance(st, fr)
	case *ssa.MakeInterface:
		e.setReg(fr, x, e.mkIface(x.X.Type(), e.val(st, fr, x.X)))
		e.advance(st, fr)
	case *ssa.MakeClosure:
		binds := make([]Value, len(x.Bindings))
		for i, b := range x.Bindings {
			binds[i] = e.val(st, fr, b)
		}
		e.setReg(fr, x, e.mkFunc(x.Fn.(*ssa.Function), binds))
		e.advance(st, fr)
	case *ssa.MakeMap:
		o := st.newObj(KMap, 0, x.Type())
		e.setReg(fr, x, e.mkPtr(o.ID, 0))
		e.advance(st, fr)
	case *ssa.MakeChan:
		n := e.concretize(st, e.val(st, fr, x.Size).(*Term), 16, "chan size")
		o := st.newObj(KChan, 0, x.Type())
		o.Cap = n
		e.setReg(fr, x, e.mkPtr(o.ID, 0))
		e.advance(st, fr)
	case *ssa.MakeSlice:
		ln := e.concretize(st, e.val(st, fr, x.Len).(*Term), e.job.MaxLen, "make len")
		cp := e.concretize(st, e.val(st, fr, x.Cap).(*Term), e.job.MaxLen*2+8, "make cap")
		et := x.Type().Underlying().(*types.Slice).Elem()
		p := e.allocArray(st, et, cp)
		e.setReg(fr, x, SliceV{P: p, Len: ts.Int(int64(ln)), Cap: ts.Int(int64(cp))})
		e.advance(st, fr)
	case *ssa.Extract:
		e.setReg(fr, x, e.val(st, fr, x.Tuple).(TupleV)[x.Index])
		e.advance(st, fr)
	case *ssa.Field:
		e.setReg(fr, x, e.val(st, fr, x.X).(StructV).F[x.Field])
		e.advance(st, fr)
	case *ssa.FieldAddr:
		p := e.val(st, fr, x.X).(Ptr)
		e.checkNonNil(st, p)
		stt := x.X.Type().Underlying().(*types.Pointer).Elem().Underlying().(*types.Struct)
		e.setReg(fr, x, e.ptrAdd(p, e.fieldOffset(stt, x.Field)))
		e.advance(st, fr)
	case *ssa.Index:
		e.execIndex(st, fr, x)
	case *ssa.IndexAddr:
		e.execIndexAddr(st, fr, x)
	case *ssa.Lookup:
		e.execLookup(st, fr, x)
	case *ssa.MapUpdate:
		m := e.val(st, fr, x.Map).(Ptr)
		e.checkPanic(st, e.ptrIsNil(m), "nil-map", "assignment to entry in nil map")
		k := e.mapKey(st, e.val(st, fr, x.Key))
		e.mapUpdate(st, m, k, e.val(st, fr, x.Value))
		e.advance(st, fr)
	case *ssa.Range:
		e.execRange(st, fr, x)
	case *ssa.Next:
		e.execNext(st, fr, x)
	case *ssa.Slice:
		e.execSlice(st, fr, x)
	case *ssa.Store:
		p := e.val(st, fr, x.Addr).(Ptr)
		e.checkNonNil(st, p)
		e.store(st, p, x.Val.Type(), e.val(st, fr, x.Val))
		e.advance(st, fr)
	case *ssa.TypeAssert:
		e.execTypeAssert(st, fr, x)
	case *ssa.If:
		c := e.val(st, fr, x.Cond).(*Term)
		if e.branch(st, c) {
			e.jump(st, fr, fr.Block.Succs[0])
		} else {
			e.jump(st, fr, fr.Block.Succs[1])
		}
	case *ssa.Jump:
		e.jump(st, fr, fr.Block.Succs[0])
	case *ssa.Return:
		var res Value
		switch len(x.Results) {
		case 0:
		case 1:
			res = e.val(st, fr, x.Results[0])
		default:
			tv := make(TupleV, len(x.Results))
			for i, r := range x.Results {
				tv[i] = e.val(st, fr, r)
			}
			res = tv
		}
		e.popFrame(st, res)
	case *ssa.Panic:
		v := e.val(st, fr, x.X)
		msg := "panic"
		if iv, ok := v.(IfaceV); ok && len(iv.Alts) == 1 && iv.Alts[0].T != nil {
			if t, ok := iv.Alts[0].V.(*Term); ok && t.IsConst() && t.S.K == SString {
				msg = t.Str
			} else {
				msg = "panic(" + iv.Alts[0].T.String() + ")"
			}
		}
		e.goPanic(st, "explicit", msg, v)
	case *ssa.RunDefers:
		if len(fr.Defers) == 0 {
			e.advance(st, fr)
			return
		}
		e.runDeferred(st, fr, DeferRec{})
	case *ssa.Defer:
		e.execDefer(st, fr, x)
	case *ssa.Go:
		e.execGo(st, fr, x)
	case *ssa.Call:
		e.execCall(st, fr, x)
	case *ssa.Send:
		e.execSend(st, fr, x)
	case *ssa.Select:
		e.execSelect(st, fr, x)
	case *ssa.SliceToArrayPointer:
		s := e.val(st, fr, x.X).(SliceV)
		e.setReg(fr, x, s.P)
		e.advance(st, fr)
	default:
		panic(pathEnd{kind: "unmodelled", msg: fmt.Sprintf("instruction %T at %s", in, e.pos(in))})
	}
}

// ---- operators ----

func (e *Engine) binop(st *State, op token.Token, xt types.Type, a, b Value, yt types.Type) Value {
	ts := e.ts
	switch op {
	case token.EQL:
		return e.valEq(xt, a, b)
	case token.NEQ:
		return ts.Not(e.valEq(xt, a, b))
	}
	x, ok1 := a.(*Term)
	y, ok2 := b.(*Term)
	if !ok1 || !ok2 {
		panic(fmt.Sprintf("binop %v on %T,%T", op, a, b))
	}
	if x.S.K == SString {
		switch op {
		case token.ADD:
			return ts.StrConcat(x, y)
		case token.LSS:
			return ts.StrPred(OStrLt, x, y)
		case token.LEQ:
			return ts.StrPred(OStrLe, x, y)
		case token.GTR:
			return ts.StrPred(OStrLt, y, x)
		case token.GEQ:
			return ts.StrPred(OStrLe, y, x)
		}
	}
	if x.S.K == SBool {
		switch op {
		case token.AND, token.LAND:
			return ts.And(x, y)
		case token.OR, token.LOR:
			return ts.Or(x, y)
		}
	}
	if x.S.K != SBV {
		panic(fmt.Sprintf("binop %v on sort %v", op, x.S))
	}
	if b, ok := xt.Underlying().(*types.Basic); ok && b.Info()&types.IsFloat != 0 {
		panic(pathEnd{kind: "unmodelled", msg: "floating point arithmetic at " + e.pos(e.curInstr)})
	}
	sg := isSigned(xt)
	switch op {
	case token.ADD:
		return ts.BvBin(OBvAdd, x, y)
	case token.SUB:
		return ts.BvBin(OBvSub, x, y)
	case token.MUL:
		return ts.BvBin(OBvMul, x, y)
	case token.QUO, token.REM:
		e.checkPanic(st, ts.Eq(y, ts.BV(0, y.S.W)), "div-zero", "integer divide by zero")
		if op == token.QUO {
			if sg {
				return ts.BvBin(OBvSDiv, x, y)
			}
			return ts.BvBin(OBvUDiv, x, y)
		}
		if sg {
			return ts.BvBin(OBvSRem, x, y)
		}
		return ts.BvBin(OBvURem, x, y)
	case token.AND:
		return ts.BvBin(OBvAnd, x, y)
	case token.OR:
		return ts.BvBin(OBvOr, x, y)
	case token.XOR:
		return ts.BvBin(OBvXor, x, y)
	case token.AND_NOT:
		return ts.BvBin(OBvAnd, x, ts.BvNot(y))
	case token.SHL, token.SHR:
		// bring the shift amount to x's width (saturating)
		amt := y
		if y.S.W > x.S.W {
			big := ts.BvCmp(OBvUle, ts.BV(uint64(x.S.W), y.S.W), y)
			amt = ts.Ite(big, ts.BV(uint64(x.S.W), x.S.W), ts.Extract(y, x.S.W-1, 0))
		} else if y.S.W < x.S.W {
			amt = ts.Zext(y, x.S.W)
		}
		if op == token.SHL {
			return ts.BvBin(OBvShl, x, amt)
		}
		if sg {
			return ts.BvBin(OBvAshr, x, amt)
		}
		return ts.BvBin(OBvLshr, x, amt)
	case token.LSS:
		if sg {
			return ts.BvCmp(OBvSlt, x, y)
		}
		return ts.BvCmp(OBvUlt, x, y)
	case token.LEQ:
		if sg {
			return ts.BvCmp(OBvSle, x, y)
		}
		return ts.BvCmp(OBvUle, x, y)
	case token.GTR:
		if sg {
			return ts.BvCmp(OBvSlt, y, x)
		}
		return ts.BvCmp(OBvUlt, y, x)
	case token.GEQ:
		if sg {
			return ts.BvCmp(OBvSle, y, x)
		}
		return ts.BvCmp(OBvUle, y, x)
	}
	panic(fmt.Sprintf("binop: unsupported %v", op))
}

func (e *Engine) execUnOp(st *State, fr *Frame, x *ssa.UnOp) {
	ts := e.ts
	switch x.Op {
	case token.MUL:
		p := e.val(st, fr, x.X).(Ptr)
		e.checkNonNil(st, p)
		e.setReg(fr, x, e.load(st, p, x.Type()))
	case token.SUB:
		e.setReg(fr, x, ts.BvNeg(e.val(st, fr, x.X).(*Term)))
	case token.NOT:
		e.setReg(fr, x, ts.Not(e.val(st, fr, x.X).(*Term)))
	case token.XOR:
		e.setReg(fr, x, ts.BvNot(e.val(st, fr, x.X).(*Term)))
	case token.ARROW:
		e.execRecv(st, fr, x)
		return
	default:
		panic(fmt.Sprintf("unop %v", x.Op))
	}
	e.advance(st, fr)
}

func (e *Engine) convert(st *State, from, to types.Type, v Value) Value {
	ts := e.ts
	fu, tu := from.Underlying(), to.Underlying()
	if fb, ok := fu.(*types.Basic); ok {
		if tb, ok := tu.(*types.Basic); ok {
			fw, fi := intWidth(fb)
			tw, ti := intWidth(tb)
			if fi && ti {
				t := v.(*Term)
				if tw <= fw {
					return ts.Extract(t, tw-1, 0)
				}
				if fb.Info()&types.IsUnsigned != 0 {
					return ts.Zext(t, tw)
				}
				return ts.Sext(t, tw)
			}
			if fi && tb.Info()&types.IsString != 0 {
				// string(rune): only single-byte values are modelled
				return ts.StrFromCode(ts.Zext(ts.Extract(v.(*Term), min(fw, 64)-1, 0), 64))
			}
			if fb.Info()&types.IsString != 0 && tb.Info()&types.IsString != 0 {
				return v
			}
			if fb.Kind() == types.UnsafePointer || tb.Kind() == types.UnsafePointer {
				panic(pathEnd{kind: "unmodelled", msg: "unsafe.Pointer conversion at " + e.pos(e.curInstr)})
			}
			if fb.Info()&types.IsFloat != 0 || tb.Info()&types.IsFloat != 0 {
				if t, ok := v.(*Term); ok && t.IsConst() {
					// constant int<->float conversions
					if fi {
						return ts.BV(math.Float64bits(float64(signed(t.BV, fw))), 64)
					}
					if ti {
						return ts.BV(uint64(int64(math.Float64frombits(t.BV))), tw)
					}
					return t
				}
				panic(pathEnd{kind: "unmodelled", msg: "float conversion at " + e.pos(e.curInstr)})
			}
		}
		// string -> []byte / []rune
		if sl, ok := tu.(*types.Slice); ok && fb.Info()&types.IsString != 0 {
			s := v.(*Term)
			n := e.concretize(st, ts.StrLen(s), e.job.MaxLen, "string length")
			eb, _ := sl.Elem().Underlying().(*types.Basic)
			w, _ := intWidth(eb)
			p := e.allocArray(st, sl.Elem(), n)
			for i := 0; i < n; i++ {
				c := ts.StrToCode(ts.StrAt(s, ts.Int(int64(i))))
				e.store(st, e.ptrAdd(p, i), sl.Elem(), ts.Extract(c, w-1, 0))
			}
			return SliceV{P: p, Len: ts.Int(int64(n)), Cap: ts.Int(int64(n))}
		}
	}
	// []byte -> string
	if sl, ok := fu.(*types.Slice); ok {
		if tb, ok := tu.(*types.Basic); ok && tb.Info()&types.IsString != 0 {
			return e.bytesToString(st, v.(SliceV), sl.Elem())
		}
	}
	if _, ok := fu.(*types.Pointer); ok {
		if _, ok := tu.(*types.Pointer); ok {
			return v
		}
	}
	panic(pathEnd{kind: "unmodelled", msg: fmt.Sprintf("convert %v -> %v at %s", from, to, e.pos(e.curInstr))})
}

func (e *Engine) bytesToString(st *State, s SliceV, elem types.Type) *Term {
	ts := e.ts
	n := e.concretize(st, s.Len, e.job.MaxLen, "slice length")
	parts := make([]*Term, n)
	for i := 0; i < n; i++ {
		b := e.load(st, e.ptrAdd(s.P, i), elem).(*Term)
		parts[i] = ts.StrFromCode(ts.Zext(b, 64))
	}
	return ts.StrConcat(parts...)
}

// ---- indexing ----

// elemPtr computes &base[idx] for a pointer to element 0, element size c and a
// (possibly symbolic) index known to be < bound.
func (e *Engine) elemPtr(st *State, base Ptr, idx *Term, c int, bound int) Ptr {
	if idx.IsConst() {
		return e.ptrAdd(base, int(idx.BV)*c)
	}
	var alts []PtrAlt
	for i := 0; i < bound; i++ {
		g := e.ts.Eq(idx, e.ts.BV(uint64(i), idx.S.W))
		for _, a := range base.Alts {
			if a.Obj == 0 {
				continue
			}
			if a.Off+(i+1)*c > len(st.obj(a.Obj).Cells) {
				continue
			}
			alts = append(alts, PtrAlt{G: e.ts.And(g, a.G), Obj: a.Obj, Off: a.Off + i*c})
		}
	}
	return e.normPtr(alts)
}

func (e *Engine) toInt64(t *Term, typ types.Type) *Term {
	if t.S.W == 64 {
		return t
	}
	if isSigned(typ) {
		return e.ts.Sext(t, 64)
	}
	return e.ts.Zext(t, 64)
}

func (e *Engine) boundsCheck(st *State, idx, ln *Term) {
	// idx, ln are 64-bit; unsigned compare also catches negatives
	e.checkPanic(st, e.ts.BvCmp(OBvUle, ln, idx), "index", "index out of range")
}

// maxLenOf returns a concrete upper bound for a slice length from its backing objects.
func (e *Engine) maxLenOf(st *State, s SliceV, c int) int {
	if s.Len.IsConst() {
		return int(s.Len.BV)
	}
	mx := 0
	for _, a := range s.P.Alts {
		if a.Obj == 0 {
			continue
		}
		if c == 0 {
			return e.job.MaxLen
		}
		n := (len(st.obj(a.Obj).Cells) - a.Off) / c
		if n > mx {
			mx = n
		}
	}
	return mx
}

func (e *Engine) execIndexAddr(st *State, fr *Frame, x *ssa.IndexAddr) {
	idx := e.toInt64(e.val(st, fr, x.Index).(*Term), x.Index.Type())
	switch t := x.X.Type().Underlying().(type) {
	case *types.Slice:
		s := e.val(st, fr, x.X).(SliceV)
		e.boundsCheck(st, idx, s.Len)
		c := e.cells(t.Elem())
		e.setReg(fr, x, e.elemPtr(st, s.P, idx, c, e.maxLenOf(st, s, c)))
	case *types.Pointer:
		at := t.Elem().Underlying().(*types.Array)
		p := e.val(st, fr, x.X).(Ptr)
		e.checkNonNil(st, p)
		e.boundsCheck(st, idx, e.ts.Int(at.Len()))
		e.setReg(fr, x, e.elemPtr(st, p, idx, e.cells(at.Elem()), int(at.Len())))
	default:
		panic(fmt.Sprintf("IndexAddr on %v", x.X.Type()))
	}
	e.advance(st, fr)
}

func (e *Engine) strIndex(st *State, s, idx *Term) *Term {
	e.boundsCheck(st, idx, e.ts.StrLen(s))
	return e.ts.Extract(e.ts.StrToCode(e.ts.StrAt(s, idx)), 7, 0)
}

func (e *Engine) execIndex(st *State, fr *Frame, x *ssa.Index) {
	idx := e.toInt64(e.val(st, fr, x.Index).(*Term), x.Index.Type())
	switch t := x.X.Type().Underlying().(type) {
	case *types.Basic: // string
		e.setReg(fr, x, e.strIndex(st, e.val(st, fr, x.X).(*Term), idx))
	case *types.Array:
		av := e.val(st, fr, x.X).(ArrayV)
		e.boundsCheck(st, idx, e.ts.Int(t.Len()))
		if idx.IsConst() {
			e.setReg(fr, x, av.E[idx.BV])
		} else {
			gs := make([]*Term, len(av.E))
			for i := range av.E {
				gs[i] = e.ts.Eq(idx, e.ts.Int(int64(i)))
			}
			e.setReg(fr, x, e.mergeVals(gs, av.E))
		}
	default:
		panic(fmt.Sprintf("Index on %v", x.X.Type()))
	}
	e.advance(st, fr)
}

func (e *Engine) execSlice(st *State, fr *Frame, x *ssa.Slice) {
	ts := e.ts
	get := func(v ssa.Value) *Term {
		if v == nil {
			return nil
		}
		return e.toInt64(e.val(st, fr, v).(*Term), v.Type())
	}
	lo, hi, mx := get(x.Low), get(x.High), get(x.Max)
	if lo == nil {
		lo = ts.Int(0)
	}
	switch t := x.X.Type().Underlying().(type) {
	case *types.Basic: // string
		s := e.val(st, fr, x.X).(*Term)
		ln := ts.StrLen(s)
		if hi == nil {
			hi = ln
		}
		e.checkPanic(st, ts.Or(ts.BvCmp(OBvUlt, ln, hi), ts.BvCmp(OBvUlt, hi, lo)), "slice-bounds", "slice bounds out of range")
		e.setReg(fr, x, ts.StrSubstr(s, lo, ts.BvBin(OBvSub, hi, lo)))
	case *types.Slice:
		s := e.val(st, fr, x.X).(SliceV)
		if hi == nil {
			hi = s.Len
		}
		if mx == nil {
			mx = s.Cap
		}
		e.checkPanic(st, ts.Or(ts.BvCmp(OBvUlt, s.Cap, mx), ts.BvCmp(OBvUlt, mx, hi), ts.BvCmp(OBvUlt, hi, lo)), "slice-bounds", "slice bounds out of range")
		c := e.cells(t.Elem())
		var np Ptr
		if lo.IsConst() {
			np = e.ptrAdd(s.P, int(lo.BV)*c)
		} else {
			// symbolic low bound: union over feasible offsets (one past the end allowed)
			bound := e.maxLenOf(st, SliceV{P: s.P, Len: s.Cap, Cap: s.Cap}, c)
			var alts []PtrAlt
			for i := 0; i <= bound; i++ {
				g := ts.Eq(lo, ts.Int(int64(i)))
				for _, a := range s.P.Alts {
					if a.Obj == 0 {
						if i == 0 {
							alts = append(alts, PtrAlt{G: ts.And(g, a.G)})
						}
						continue
					}
					alts = append(alts, PtrAlt{G: ts.And(g, a.G), Obj: a.Obj, Off: a.Off + i*c})
				}
			}
			np = e.normPtr(alts)
		}
		e.setReg(fr, x, SliceV{P: np, Len: ts.BvBin(OBvSub, hi, lo), Cap: ts.BvBin(OBvSub, mx, lo)})
	case *types.Pointer:
		at := t.Elem().Underlying().(*types.Array)
		p := e.val(st, fr, x.X).(Ptr)
		e.checkNonNil(st, p)
		n := ts.Int(at.Len())
		if hi == nil {
			hi = n
		}
		if mx == nil {
			mx = n
		}
		e.checkPanic(st, ts.Or(ts.BvCmp(OBvUlt, n, mx), ts.BvCmp(OBvUlt, mx, hi), ts.BvCmp(OBvUlt, hi, lo)), "slice-bounds", "slice bounds out of range")
		l := e.concretize(st, lo, int(at.Len()), "slice low")
		e.setReg(fr, x, SliceV{P: e.ptrAdd(p, l*e.cells(at.Elem())), Len: ts.BvBin(OBvSub, hi, lo), Cap: ts.BvBin(OBvSub, mx, lo)})
	default:
		panic(fmt.Sprintf("Slice on %v", x.X.Type()))
	}
	e.advance(st, fr)
}

// ---- type assertions ----

func (e *Engine) implements(t types.Type, it *types.Interface) bool {
	return types.Implements(t, it)
}

func (e *Engine) execTypeAssert(st *State, fr *Frame, x *ssa.TypeAssert) {
	ts := e.ts
	iv := e.val(st, fr, x.X).(IfaceV)
	at := x.AssertedType
	it, toIface := at.Underlying().(*types.Interface)
	var okG []*Term
	var okAlts []IfaceAlt
	for _, a := range iv.Alts {
		if a.T == nil {
			continue
		}
		match := false
		if toIface {
			match = e.implements(a.T, it)
		} else {
			match = types.Identical(a.T, at)
		}
		if match {
			okG = append(okG, a.G)
			okAlts = append(okAlts, a)
		}
	}
	okCond := ts.Or(okG...)
	var res Value
	mk := func() Value {
		if len(okAlts) == 0 {
			return e.zero(at)
		}
		if toIface {
			return e.normIface(append([]IfaceAlt(nil), okAlts...))
		}
		gs := make([]*Term, len(okAlts))
		vs := make([]Value, len(okAlts))
		for i, a := range okAlts {
			gs[i], vs[i] = a.G, a.V
		}
		return e.mergeVals(gs, vs)
	}
	if x.CommaOk {
		v := mk()
		if !okCond.IsTrue() && len(okAlts) > 0 {
			v = e.ite(okCond, v, e.zero(at))
		}
		res = TupleV{v, okCond}
	} else {
		if !okCond.IsTrue() {
			e.checkPanic(st, ts.Not(okCond), "type-assert", fmt.Sprintf("interface conversion: not %s", at))
		}
		res = mk()
	}
	e.setReg(fr, x, res)
	e.advance(st, fr)
}

// ---- maps ----

func (e *Engine) mapKey(st *State, k Value) *Term {
	switch x := k.(type) {
	case *Term:
		return x
	case IfaceV:
		// interface-typed keys: only single-alternative string / int payloads are modelled
		if len(x.Alts) == 1 && x.Alts[0].T != nil {
			if t, ok := x.Alts[0].V.(*Term); ok {
				return t
			}
		}
	}
	panic(pathEnd{kind: "unmodelled", msg: fmt.Sprintf("map key %T at %s", k, e.pos(e.curInstr))})
}

// mapLookup returns (value, ok) for key k; zero is the value type's zero.
func (e *Engine) mapLookup(st *State, m Ptr, k *Term, vt types.Type) (Value, *Term) {
	ts := e.ts
	var gs []*Term
	var vs []Value
	var oks []Value
	for _, a := range m.Alts {
		var val Value = e.zero(vt)
		ok := ts.F
		if a.Obj != 0 {
			o := st.obj(a.Obj)
			for _, en := range o.Entries { // oldest → newest, newest wins
				if en.K.S != k.S {
					continue
				}
				hit := ts.Eq(k, en.K)
				if hit.IsFalse() {
					continue
				}
				if en.V == nil { // tombstone
					val = e.ite(hit, e.zero(vt), val)
					ok = ts.Ite(hit, ts.F, ok)
				} else {
					val = e.ite(hit, en.V, val)
					ok = ts.Ite(hit, en.Live, ok)
				}
			}
		}
		gs = append(gs, a.G)
		vs = append(vs, val)
		oks = append(oks, ok)
	}
	return e.mergeVals(gs, vs), e.mergeVals(gs, oks).(*Term)
}

func (e *Engine) mapUpdate(st *State, m Ptr, k *Term, v Value) {
	ts := e.ts
	nn := 0
	for _, a := range m.Alts {
		if a.Obj != 0 {
			nn++
		}
	}
	for _, a := range m.Alts {
		if a.Obj == 0 {
			continue
		}
		o := st.wobj(a.Obj)
		if nn > 1 {
			// conditional update through a union map pointer: keep old value otherwise
			old, oldOk := e.mapLookup(st, e.mkPtr(a.Obj, 0), k, mapValType(o.Type))
			nv := e.ite(a.G, v, old)
			o.Entries = append(o.Entries, MapEntry{K: k, V: nv, Live: ts.Or(a.G, oldOk)})
			continue
		}
		// in-place overwrite when the newest possibly-aliasing entry has the identical key
		done := false
		for i := len(o.Entries) - 1; i >= 0; i-- {
			en := o.Entries[i]
			if en.K == k {
				if v == nil {
					o.Entries[i] = MapEntry{K: k, V: nil, Live: ts.F}
				} else {
					o.Entries[i] = MapEntry{K: k, V: v, Live: ts.T}
				}
				done = true
				break
			}
			if en.K.S == k.S && !ts.Eq(en.K, k).IsFalse() {
				break // may alias: must append
			}
		}
		if !done {
			if v == nil {
				o.Entries = append(o.Entries, MapEntry{K: k, V: nil, Live: ts.F})
			} else {
				o.Entries = append(o.Entries, MapEntry{K: k, V: v, Live: ts.T})
			}
		}
	}
}

func mapValType(t types.Type) types.Type {
	if m, ok := t.Underlying().(*types.Map); ok {
		return m.Elem()
	}
	return nil
}

// mapEntriesEffective lists entries with the guard under which each is the
// live binding of its key (not shadowed by a later entry), in first-insertion order.
func (e *Engine) mapEffective(st *State, o *Object) (keys []*Term, vals []Value, guards []*Term) {
	ts := e.ts
	for i, en := range o.Entries {
		if en.V == nil {
			continue
		}
		g := en.Live
		for j := i + 1; j < len(o.Entries); j++ {
			if o.Entries[j].K.S != en.K.S {
				continue
			}
			g = ts.And(g, ts.Not(ts.Eq(en.K, o.Entries[j].K)))
		}
		if g.IsFalse() {
			continue
		}
		keys = append(keys, en.K)
		vals = append(vals, en.V)
		guards = append(guards, g)
	}
	return
}

func (e *Engine) mapLen(st *State, m Ptr) *Term {
	ts := e.ts
	var gs []*Term
	var vs []Value
	for _, a := range m.Alts {
		n := ts.Int(0)
		if a.Obj != 0 {
			_, _, guards := e.mapEffective(st, st.obj(a.Obj))
			for _, g := range guards {
				n = ts.BvBin(OBvAdd, n, ts.Ite(g, ts.Int(1), ts.Int(0)))
			}
		}
		gs = append(gs, a.G)
		vs = append(vs, n)
	}
	return e.mergeVals(gs, vs).(*Term)
}

func (e *Engine) execLookup(st *State, fr *Frame, x *ssa.Lookup) {
	if b, ok := x.X.Type().Underlying().(*types.Basic); ok && b.Info()&types.IsString != 0 {
		idx := e.toInt64(e.val(st, fr, x.Index).(*Term), x.Index.Type())
		e.setReg(fr, x, e.strIndex(st, e.val(st, fr, x.X).(*Term), idx))
		e.advance(st, fr)
		return
	}
	m := e.val(st, fr, x.X).(Ptr)
	mt := x.X.Type().Underlying().(*types.Map)
	k := e.mapKey(st, e.val(st, fr, x.Index))
	v, ok := e.mapLookup(st, m, k, mt.Elem())
	if x.CommaOk {
		e.setReg(fr, x, TupleV{v, ok})
	} else {
		e.setReg(fr, x, v)
	}
	e.advance(st, fr)
}

func (e *Engine) execRange(st *State, fr *Frame, x *ssa.Range) {
	it := &IterV{}
	if b, ok := x.X.Type().Underlying().(*types.Basic); ok && b.Info()&types.IsString != 0 {
		s := e.val(st, fr, x.X).(*Term)
		n := e.concretize(st, e.ts.StrLen(s), e.job.MaxLen, "range string length")
		it.IsStr = true
		for i := 0; i < n; i++ {
			// bytes are treated as runes (ASCII only; see DESIGN §4)
			c := e.ts.StrToCode(e.ts.StrAt(s, e.ts.Int(int64(i))))
			it.Keys = append(it.Keys, e.ts.Int(int64(i)))
			it.Vals = append(it.Vals, e.ts.Extract(c, 31, 0))
			it.Guard = append(it.Guard, e.ts.T)
		}
	} else {
		m := e.val(st, fr, x.X).(Ptr)
		if len(m.Alts) != 1 {
			// fork on which map it is
			conds := make([]*Term, len(m.Alts))
			for i, a := range m.Alts {
				conds[i] = a.G
			}
			k := e.fork(st, conds)
			m = Ptr{[]PtrAlt{{G: e.ts.T, Obj: m.Alts[k].Obj, Off: m.Alts[k].Off}}}
		}
		if m.Alts[0].Obj != 0 {
			keys, vals, guards := e.mapEffective(st, st.obj(m.Alts[0].Obj))
			for i := range keys {
				it.Keys = append(it.Keys, keys[i])
				it.Vals = append(it.Vals, vals[i])
				it.Guard = append(it.Guard, guards[i])
			}
		}
	}
	e.setReg(fr, x, it)
	e.advance(st, fr)
}

func (e *Engine) execNext(st *State, fr *Frame, x *ssa.Next) {
	it := e.val(st, fr, x.Iter).(*IterV)
	tt := x.Type().(*types.Tuple)
	pos := it.Pos
	for pos < len(it.Keys) {
		if e.branch(st, it.Guard[pos]) {
			break
		}
		pos++
	}
	n := &IterV{Keys: it.Keys, Vals: it.Vals, Guard: it.Guard, IsStr: it.IsStr}
	if pos >= len(it.Keys) {
		n.Pos = pos
		e.setReg(fr, x.Iter, n)
		e.setReg(fr, x, TupleV{e.ts.F, e.zeroOrInvalid(tt.At(1).Type()), e.zeroOrInvalid(tt.At(2).Type())})
		e.advance(st, fr)
		return
	}
	n.Pos = pos + 1
	e.setReg(fr, x.Iter, n)
	var k, v Value = it.Keys[pos], it.Vals[pos]
	if _, ok := tt.At(1).Type().Underlying().(*types.Interface); ok && !it.IsStr {
		// interface-keyed map: re-box the key as string
		k = e.mkIface(types.Typ[types.String], k)
	}
	e.setReg(fr, x, TupleV{e.ts.T, k, v})
	e.advance(st, fr)
}

func (e *Engine) zeroOrInvalid(t types.Type) Value {
	if b, ok := t.(*types.Basic); ok && b.Kind() == types.Invalid {
		return e.ts.F
	}
	return e.zero(t)
}
