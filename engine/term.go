package main

// Hash-consed SMT terms with constant folding, a small simplifier, a concrete
// evaluator (used for model-witness reuse and for translator self-tests) and
// an SMT-LIB2 printer.

import (
	"fmt"
	"sort"
	"strconv"
	"strings"
)

type SortKind uint8

const (
	SBool SortKind = iota
	SBV
	SString
)

type Sort struct {
	K SortKind
	W int
}

var BoolSort = Sort{SBool, 0}
var StringSort = Sort{SString, 0}

func BVSort(w int) Sort { return Sort{SBV, w} }

func (s Sort) SMT() string {
	switch s.K {
	case SBool:
		return "Bool"
	case SBV:
		return fmt.Sprintf("(_ BitVec %d)", s.W)
	default:
		return "String"
	}
}

type Op uint8

const (
	OConst Op = iota
	OVar
	ONot
	OAnd
	OOr
	OEq
	OIte
	OBvAdd
	OBvSub
	OBvMul
	OBvUDiv
	OBvSDiv
	OBvURem
	OBvSRem
	OBvAnd
	OBvOr
	OBvXor
	OBvShl
	OBvLshr
	OBvAshr
	OBvNot
	OBvNeg
	OBvUlt
	OBvUle
	OBvSlt
	OBvSle
	OExtract // I1=hi I2=lo
	OZext    // I1=extra bits
	OSext    // I1=extra bits
	OStrConcat
	OStrLen // result: BV64
	OStrAt  // (str, idx bv64) -> string of len<=1
	OStrSubstr
	OStrPrefixOf // (prefix, s)
	OStrSuffixOf
	OStrContains // (s, sub)
	OStrIndexOf  // (s, sub, from bv64) -> bv64 (as signed; -1 if none)
	OStrLt
	OStrLe
	OStrToCode   // string(len1) -> bv64 (-1 otherwise)
	OStrFromCode // bv64 -> string
)

var opNames = map[Op]string{
	ONot: "not", OAnd: "and", OOr: "or", OEq: "=", OIte: "ite",
	OBvAdd: "bvadd", OBvSub: "bvsub", OBvMul: "bvmul", OBvUDiv: "bvudiv", OBvSDiv: "bvsdiv",
	OBvURem: "bvurem", OBvSRem: "bvsrem", OBvAnd: "bvand", OBvOr: "bvor", OBvXor: "bvxor",
	OBvShl: "bvshl", OBvLshr: "bvlshr", OBvAshr: "bvashr", OBvNot: "bvnot", OBvNeg: "bvneg",
	OBvUlt: "bvult", OBvUle: "bvule", OBvSlt: "bvslt", OBvSle: "bvsle",
	OStrConcat: "str.++", OStrPrefixOf: "str.prefixof", OStrSuffixOf: "str.suffixof", OStrContains: "str.contains",
	OStrLt: "str.<", OStrLe: "str.<=",
}

type Term struct {
	Op   Op
	Args []*Term
	S    Sort
	BV   uint64
	B    bool
	Str  string
	Name string
	I1   int
	I2   int
	id   int
	vars map[string]*Term // lazily computed free variables
}

func (t *Term) IsConst() bool { return t.Op == OConst }
func (t *Term) IsTrue() bool  { return t.Op == OConst && t.S.K == SBool && t.B }
func (t *Term) IsFalse() bool { return t.Op == OConst && t.S.K == SBool && !t.B }

// TermStore is per worker; terms from different stores must not be mixed.
type TermStore struct {
	tab    map[string]*Term
	nextID int
	fresh  map[string]int
	T, F   *Term
}

func NewTermStore() *TermStore {
	ts := &TermStore{tab: map[string]*Term{}, fresh: map[string]int{}}
	ts.T = ts.intern(&Term{Op: OConst, S: BoolSort, B: true})
	ts.F = ts.intern(&Term{Op: OConst, S: BoolSort, B: false})
	return ts
}

func (ts *TermStore) key(t *Term) string {
	var sb strings.Builder
	sb.WriteByte(byte(t.Op))
	sb.WriteByte(byte(t.S.K))
	sb.WriteString(strconv.Itoa(t.S.W))
	sb.WriteByte('|')
	switch t.Op {
	case OConst:
		switch t.S.K {
		case SBool:
			if t.B {
				sb.WriteByte('t')
			} else {
				sb.WriteByte('f')
			}
		case SBV:
			sb.WriteString(strconv.FormatUint(t.BV, 16))
		default:
			sb.WriteString(t.Str)
		}
	case OVar:
		sb.WriteString(t.Name)
	default:
		for _, a := range t.Args {
			sb.WriteString(strconv.Itoa(a.id))
			sb.WriteByte(',')
		}
		if t.Op == OExtract || t.Op == OZext || t.Op == OSext {
			sb.WriteString(strconv.Itoa(t.I1))
			sb.WriteByte(':')
			sb.WriteString(strconv.Itoa(t.I2))
		}
	}
	return sb.String()
}

func (ts *TermStore) intern(t *Term) *Term {
	k := ts.key(t)
	if o, ok := ts.tab[k]; ok {
		return o
	}
	ts.nextID++
	t.id = ts.nextID
	ts.tab[k] = t
	return t
}

func mask(w int) uint64 {
	if w >= 64 {
		return ^uint64(0)
	}
	return (uint64(1) << uint(w)) - 1
}

func signed(v uint64, w int) int64 {
	if w >= 64 {
		return int64(v)
	}
	if v&(uint64(1)<<uint(w-1)) != 0 {
		return int64(v | ^mask(w))
	}
	return int64(v)
}

func (ts *TermStore) Bool(b bool) *Term {
	if b {
		return ts.T
	}
	return ts.F
}
func (ts *TermStore) BV(v uint64, w int) *Term {
	return ts.intern(&Term{Op: OConst, S: BVSort(w), BV: v & mask(w)})
}
func (ts *TermStore) Int(v int64) *Term  { return ts.BV(uint64(v), 64) }
func (ts *TermStore) StrC(s string) *Term { return ts.intern(&Term{Op: OConst, S: StringSort, Str: s}) }

func (ts *TermStore) Var(name string, s Sort) *Term {
	return ts.intern(&Term{Op: OVar, S: s, Name: name})
}

// Fresh returns a variable with a unique name derived from base.
func (ts *TermStore) Fresh(base string, s Sort) *Term {
	n := ts.fresh[base]
	ts.fresh[base] = n + 1
	name := base
	if n > 0 {
		name = fmt.Sprintf("%s#%d", base, n)
	}
	return ts.Var(name, s)
}

func (ts *TermStore) mk(op Op, s Sort, args ...*Term) *Term {
	return ts.intern(&Term{Op: op, S: s, Args: args})
}

func (ts *TermStore) Not(a *Term) *Term {
	if a.IsConst() {
		return ts.Bool(!a.B)
	}
	if a.Op == ONot {
		return a.Args[0]
	}
	return ts.mk(ONot, BoolSort, a)
}

func (ts *TermStore) And(as ...*Term) *Term {
	var out []*Term
	seen := map[int]bool{}
	for _, a := range as {
		if a.IsFalse() {
			return ts.F
		}
		if a.IsTrue() {
			continue
		}
		if a.Op == OAnd {
			for _, b := range a.Args {
				if !seen[b.id] {
					seen[b.id] = true
					out = append(out, b)
				}
			}
			continue
		}
		if !seen[a.id] {
			seen[a.id] = true
			out = append(out, a)
		}
	}
	for _, a := range out {
		if a.Op == ONot && seen[a.Args[0].id] {
			return ts.F
		}
	}
	switch len(out) {
	case 0:
		return ts.T
	case 1:
		return out[0]
	}
	return ts.mk(OAnd, BoolSort, out...)
}

func (ts *TermStore) Or(as ...*Term) *Term {
	var out []*Term
	seen := map[int]bool{}
	for _, a := range as {
		if a.IsTrue() {
			return ts.T
		}
		if a.IsFalse() {
			continue
		}
		if a.Op == OOr {
			for _, b := range a.Args {
				if !seen[b.id] {
					seen[b.id] = true
					out = append(out, b)
				}
			}
			continue
		}
		if !seen[a.id] {
			seen[a.id] = true
			out = append(out, a)
		}
	}
	for _, a := range out {
		if a.Op == ONot && seen[a.Args[0].id] {
			return ts.T
		}
	}
	switch len(out) {
	case 0:
		return ts.F
	case 1:
		return out[0]
	}
	return ts.mk(OOr, BoolSort, out...)
}

func (ts *TermStore) Implies(a, b *Term) *Term { return ts.Or(ts.Not(a), b) }

// iteLeaves returns the constant leaves of an ite-tree, or nil if t is not a
// (small) ite-tree over constants.
func iteLeafCount(t *Term, limit int) int {
	if t.IsConst() {
		return 1
	}
	if t.Op != OIte || limit <= 0 {
		return 1 << 20
	}
	a := iteLeafCount(t.Args[1], limit-1)
	if a > limit {
		return a
	}
	return a + iteLeafCount(t.Args[2], limit-1)
}

const liftLimit = 12

// lift1 applies f to every constant leaf of ite-tree t.
func (ts *TermStore) lift1(t *Term, f func(*Term) *Term) *Term {
	if t.Op == OIte {
		return ts.Ite(t.Args[0], ts.lift1(t.Args[1], f), ts.lift1(t.Args[2], f))
	}
	return f(t)
}

func (ts *TermStore) Eq(a, b *Term) *Term {
	if a == b {
		return ts.T
	}
	if a.S != b.S {
		panic(fmt.Sprintf("Eq sort mismatch %v %v: %s vs %s", a.S, b.S, ts.Show(a), ts.Show(b)))
	}
	if a.IsConst() && b.IsConst() {
		return ts.F // hash-consed: distinct constants
	}
	if a.S.K == SBool {
		if a.IsConst() {
			a, b = b, a
		}
		if b.IsTrue() {
			return a
		}
		if b.IsFalse() {
			return ts.Not(a)
		}
	}
	if a.S.K == SString && (a.Op == OStrConcat || a.Op == OStrFromCode || b.Op == OStrConcat || b.Op == OStrFromCode || a.Op == OIte || b.Op == OIte) {
		ua, oka := ts.units(a)
		ub, okb := ts.units(b)
		if oka && okb {
			if len(ua) != len(ub) {
				return ts.F
			}
			cs := make([]*Term, len(ua))
			for i := range ua {
				cs[i] = ts.Eq(ts.unitCode(ua[i]), ts.unitCode(ub[i]))
			}
			return ts.And(cs...)
		}
	}
	if a.S.K == SString && a.Op == OIte {
		if n := ts.iteOfUnits(a, 16); n > 1 {
			return ts.lift1Bool(a, func(x *Term) *Term { return ts.Eq(x, b) })
		}
	}
	if a.S.K == SString && b.Op == OIte {
		if n := ts.iteOfUnits(b, 16); n > 1 {
			return ts.lift1Bool(b, func(y *Term) *Term { return ts.Eq(a, y) })
		}
	}
	// finite-domain lifting: equality of ite-trees over constants
	if a.Op == OIte || b.Op == OIte {
		na, nb := iteLeafCount(a, liftLimit), iteLeafCount(b, liftLimit)
		if na*nb <= 64 {
			return ts.lift1(a, func(x *Term) *Term {
				return ts.lift1(b, func(y *Term) *Term { return ts.Eq(x, y) })
			})
		}
	}
	if a.id > b.id {
		a, b = b, a
	}
	return ts.mk(OEq, BoolSort, a, b)
}

func (ts *TermStore) Ite(c, a, b *Term) *Term {
	if c.IsTrue() {
		return a
	}
	if c.IsFalse() {
		return b
	}
	if a == b {
		return a
	}
	if a.S != b.S {
		panic(fmt.Sprintf("Ite sort mismatch %v %v", a.S, b.S))
	}
	if a.S.K == SBool {
		if a.IsTrue() && b.IsFalse() {
			return c
		}
		if a.IsFalse() && b.IsTrue() {
			return ts.Not(c)
		}
		if a.IsTrue() {
			return ts.Or(c, b)
		}
		if a.IsFalse() {
			return ts.And(ts.Not(c), b)
		}
		if b.IsTrue() {
			return ts.Or(ts.Not(c), a)
		}
		if b.IsFalse() {
			return ts.And(c, a)
		}
	}
	if c.Op == ONot {
		return ts.Ite(c.Args[0], b, a)
	}
	// ite(c, x, ite(c, y, z)) -> ite(c, x, z)
	if b.Op == OIte && b.Args[0] == c {
		return ts.Ite(c, a, b.Args[2])
	}
	if a.Op == OIte && a.Args[0] == c {
		return ts.Ite(c, a.Args[1], b)
	}
	return ts.mk(OIte, a.S, c, a, b)
}

func (ts *TermStore) foldBin(op Op, a, b uint64, w int) (uint64, bool) {
	m := mask(w)
	switch op {
	case OBvAdd:
		return (a + b) & m, true
	case OBvSub:
		return (a - b) & m, true
	case OBvMul:
		return (a * b) & m, true
	case OBvAnd:
		return a & b, true
	case OBvOr:
		return a | b, true
	case OBvXor:
		return a ^ b, true
	case OBvUDiv:
		if b == 0 {
			return m, true
		}
		return a / b, true
	case OBvURem:
		if b == 0 {
			return a, true
		}
		return a % b, true
	case OBvSDiv:
		sa, sb := signed(a, w), signed(b, w)
		if sb == 0 {
			if sa < 0 {
				return 1, true
			}
			return m, true
		}
		if sb == -1 {
			return uint64(-sa) & m, true
		}
		return uint64(sa/sb) & m, true
	case OBvSRem:
		sa, sb := signed(a, w), signed(b, w)
		if sb == 0 {
			return a, true
		}
		if sb == -1 {
			return 0, true
		}
		return uint64(sa%sb) & m, true
	case OBvShl:
		if b >= uint64(w) {
			return 0, true
		}
		return (a << b) & m, true
	case OBvLshr:
		if b >= uint64(w) {
			return 0, true
		}
		return a >> b, true
	case OBvAshr:
		sa := signed(a, w)
		if b >= uint64(w) {
			if sa < 0 {
				return m, true
			}
			return 0, true
		}
		return uint64(sa>>b) & m, true
	}
	return 0, false
}

func (ts *TermStore) BvBin(op Op, a, b *Term) *Term {
	if a.S != b.S || a.S.K != SBV {
		panic(fmt.Sprintf("BvBin %s sort mismatch %v %v", opNames[op], a.S, b.S))
	}
	w := a.S.W
	if a.IsConst() && b.IsConst() {
		if v, ok := ts.foldBin(op, a.BV, b.BV, w); ok {
			return ts.BV(v, w)
		}
	}
	switch op {
	case OBvAdd:
		if a.IsConst() && a.BV == 0 {
			return b
		}
		if b.IsConst() && b.BV == 0 {
			return a
		}
		// (x + c1) + c2
		if b.IsConst() && a.Op == OBvAdd && a.Args[1].IsConst() {
			return ts.BvBin(OBvAdd, a.Args[0], ts.BV(a.Args[1].BV+b.BV, w))
		}
		if a.IsConst() {
			a, b = b, a
		}
	case OBvSub:
		if b.IsConst() && b.BV == 0 {
			return a
		}
		if a == b {
			return ts.BV(0, w)
		}
		if b.IsConst() {
			return ts.BvBin(OBvAdd, a, ts.BV(-b.BV, w))
		}
	case OBvMul:
		if a.IsConst() {
			a, b = b, a
		}
		if b.IsConst() && b.BV == 1 {
			return a
		}
		if b.IsConst() && b.BV == 0 {
			return b
		}
	case OBvAnd:
		if a == b {
			return a
		}
		if a.IsConst() {
			a, b = b, a
		}
		if b.IsConst() && b.BV == 0 {
			return b
		}
		if b.IsConst() && b.BV == mask(w) {
			return a
		}
	case OBvOr:
		if a == b {
			return a
		}
		if a.IsConst() {
			a, b = b, a
		}
		if b.IsConst() && b.BV == 0 {
			return a
		}
	case OBvXor:
		if a == b {
			return ts.BV(0, w)
		}
	}
	// lift through small ite-trees when the other side is constant
	if (a.Op == OIte && b.IsConst()) || (b.Op == OIte && a.IsConst()) {
		if iteLeafCount(a, liftLimit)*iteLeafCount(b, liftLimit) <= 16 {
			return ts.lift1(a, func(x *Term) *Term {
				return ts.lift1(b, func(y *Term) *Term { return ts.BvBin(op, x, y) })
			})
		}
	}
	return ts.mk(op, a.S, a, b)
}

func (ts *TermStore) BvCmp(op Op, a, b *Term) *Term {
	if a.S != b.S || a.S.K != SBV {
		panic(fmt.Sprintf("BvCmp sort mismatch %v %v", a.S, b.S))
	}
	w := a.S.W
	if a.IsConst() && b.IsConst() {
		switch op {
		case OBvUlt:
			return ts.Bool(a.BV < b.BV)
		case OBvUle:
			return ts.Bool(a.BV <= b.BV)
		case OBvSlt:
			return ts.Bool(signed(a.BV, w) < signed(b.BV, w))
		case OBvSle:
			return ts.Bool(signed(a.BV, w) <= signed(b.BV, w))
		}
	}
	if a == b {
		return ts.Bool(op == OBvUle || op == OBvSle)
	}
	if (a.Op == OIte && b.IsConst()) || (b.Op == OIte && a.IsConst()) || (a.Op == OIte && b.Op == OIte) {
		if iteLeafCount(a, liftLimit)*iteLeafCount(b, liftLimit) <= 32 {
			return ts.lift1(a, func(x *Term) *Term {
				return ts.lift1(b, func(y *Term) *Term { return ts.BvCmp(op, x, y) })
			})
		}
	}
	return ts.mk(op, BoolSort, a, b)
}

func (ts *TermStore) BvNot(a *Term) *Term {
	if a.IsConst() {
		return ts.BV(^a.BV, a.S.W)
	}
	return ts.mk(OBvNot, a.S, a)
}
func (ts *TermStore) BvNeg(a *Term) *Term {
	if a.IsConst() {
		return ts.BV(-a.BV, a.S.W)
	}
	return ts.mk(OBvNeg, a.S, a)
}

func (ts *TermStore) Extract(a *Term, hi, lo int) *Term {
	if lo == 0 && hi == a.S.W-1 {
		return a
	}
	if a.IsConst() {
		return ts.BV(a.BV>>uint(lo), hi-lo+1)
	}
	if a.Op == OIte && iteLeafCount(a, liftLimit) <= liftLimit {
		return ts.lift1(a, func(x *Term) *Term { return ts.Extract(x, hi, lo) })
	}
	if (a.Op == OZext || a.Op == OSext) && lo == 0 {
		inner := a.Args[0]
		if hi+1 == inner.S.W {
			return inner
		}
		if hi+1 < inner.S.W {
			return ts.Extract(inner, hi, 0)
		}
	}
	return ts.intern(&Term{Op: OExtract, S: BVSort(hi - lo + 1), Args: []*Term{a}, I1: hi, I2: lo})
}

func (ts *TermStore) Zext(a *Term, to int) *Term {
	if to == a.S.W {
		return a
	}
	if to < a.S.W {
		return ts.Extract(a, to-1, 0)
	}
	if a.IsConst() {
		return ts.BV(a.BV, to)
	}
	if a.Op == OIte && iteLeafCount(a, liftLimit) <= liftLimit {
		return ts.lift1(a, func(x *Term) *Term { return ts.Zext(x, to) })
	}
	return ts.intern(&Term{Op: OZext, S: BVSort(to), Args: []*Term{a}, I1: to - a.S.W})
}

func (ts *TermStore) Sext(a *Term, to int) *Term {
	if to == a.S.W {
		return a
	}
	if to < a.S.W {
		return ts.Extract(a, to-1, 0)
	}
	if a.IsConst() {
		return ts.BV(uint64(signed(a.BV, a.S.W)), to)
	}
	if a.Op == OIte && iteLeafCount(a, liftLimit) <= liftLimit {
		return ts.lift1(a, func(x *Term) *Term { return ts.Sext(x, to) })
	}
	return ts.intern(&Term{Op: OSext, S: BVSort(to), Args: []*Term{a}, I1: to - a.S.W})
}

// ---- strings (each Go byte is one SMT character; see DESIGN §4) ----

func (ts *TermStore) StrConcat(as ...*Term) *Term {
	var out []*Term
	for _, a := range as {
		if a.Op == OStrConcat {
			out = append(out, a.Args...)
		} else {
			out = append(out, a)
		}
	}
	var res []*Term
	for _, a := range out {
		if a.IsConst() && a.Str == "" {
			continue
		}
		if len(res) > 0 && a.IsConst() && res[len(res)-1].IsConst() {
			res[len(res)-1] = ts.StrC(res[len(res)-1].Str + a.Str)
			continue
		}
		res = append(res, a)
	}
	switch len(res) {
	case 0:
		return ts.StrC("")
	case 1:
		return res[0]
	}
	// sequences of single characters stay structural (units); only other finite-domain pieces are lifted
	allUnits := true
	for _, r := range res {
		if _, ok := ts.units(r); !ok {
			allUnits = false
			break
		}
	}
	if !allUnits {
		if r, ok := ts.liftArgs(res, func(c []*Term) *Term { return ts.StrConcat(c...) }); ok {
			return r
		}
	}
	return ts.mk(OStrConcat, StringSort, res...)
}

// units flattens a string term into single-character pieces (constant chars or
// StrFromCode terms) when its length is known structurally.
func (ts *TermStore) units(t *Term) ([]*Term, bool) {
	switch {
	case t.IsConst():
		out := make([]*Term, len(t.Str))
		for i := range out {
			out[i] = ts.StrC(t.Str[i : i+1])
		}
		return out, true
	case t.Op == OStrFromCode:
		return []*Term{t}, true
	case t.Op == OIte:
		// an ite whose branches are both single characters is a single character
		a, oka := ts.units(t.Args[1])
		b, okb := ts.units(t.Args[2])
		if oka && okb && len(a) == 1 && len(b) == 1 {
			return []*Term{t}, true
		}
		return nil, false
	case t.Op == OStrConcat:
		var out []*Term
		for _, a := range t.Args {
			u, ok := ts.units(a)
			if !ok {
				return nil, false
			}
			out = append(out, u...)
		}
		return out, true
	}
	return nil, false
}

// unitCode returns the character code (64-bit) of a single-character piece.
func (ts *TermStore) unitCode(u *Term) *Term {
	if u.IsConst() {
		return ts.Int(int64(u.Str[0]))
	}
	if u.Op == OIte {
		return ts.Ite(u.Args[0], ts.unitCode(u.Args[1]), ts.unitCode(u.Args[2]))
	}
	return u.Args[0]
}

func (ts *TermStore) StrLen(a *Term) *Term {
	if a.IsConst() {
		return ts.Int(int64(len(a.Str)))
	}
	if u, ok := ts.units(a); ok {
		return ts.Int(int64(len(u)))
	}
	if a.Op == OIte && iteLeafCount(a, liftLimit) <= liftLimit {
		return ts.lift1(a, func(x *Term) *Term { return ts.StrLen(x) })
	}
	if a.Op == OIte {
		if r, ok := ts.liftArgs([]*Term{a}, func(c []*Term) *Term { return ts.StrLen(c[0]) }); ok {
			return r
		}
		if n := ts.iteOfUnits(a, 16); n > 1 {
			return ts.distribute(a, func(x *Term) *Term { return ts.StrLen(x) })
		}
	}
	if a.Op == OStrConcat {
		sum := ts.Int(0)
		for _, x := range a.Args {
			sum = ts.BvBin(OBvAdd, sum, ts.StrLen(x))
		}
		return sum
	}
	if a.Op == OStrFromCode {
		return ts.Int(1)
	}
	return ts.mk(OStrLen, BVSort(64), a)
}

// iteOfUnits reports whether t is an ite-tree (at most limit leaves) whose leaves are all
// unit sequences (or constants): an operation can then be distributed over the branches.
func (ts *TermStore) iteOfUnits(t *Term, limit int) int {
	if t.Op == OIte && t.S.K == SString {
		if _, ok := ts.units(t); ok {
			return 1 // a single-character ite is itself a unit
		}
		a := ts.iteOfUnits(t.Args[1], limit)
		if a < 0 || a > limit {
			return -1
		}
		b := ts.iteOfUnits(t.Args[2], limit-a)
		if b < 0 || a+b > limit {
			return -1
		}
		return a + b
	}
	if _, ok := ts.units(t); ok {
		return 1
	}
	return -1
}

// distribute applies f to the leaves of an ite-tree of unit sequences.
func (ts *TermStore) distribute(t *Term, f func(*Term) *Term) *Term {
	if t.Op == OIte && t.S.K == SString {
		if _, ok := ts.units(t); !ok {
			return ts.Ite(t.Args[0], ts.distribute(t.Args[1], f), ts.distribute(t.Args[2], f))
		}
	}
	return f(t)
}

// lift1Bool distributes a Boolean-valued f over an ite-tree of unit sequences.
func (ts *TermStore) lift1Bool(t *Term, f func(*Term) *Term) *Term {
	if t.Op == OIte && t.S.K == SString {
		if _, ok := ts.units(t); !ok {
			return ts.Ite(t.Args[0], ts.lift1Bool(t.Args[1], f), ts.lift1Bool(t.Args[2], f))
		}
	}
	return f(t)
}

// constPrefix returns the longest constant prefix of a string term and whether
// that prefix is the whole string.
func constPrefix(t *Term) (string, bool) {
	if t.IsConst() {
		return t.Str, true
	}
	if t.Op == OStrConcat && t.Args[0].IsConst() {
		return t.Args[0].Str, false
	}
	return "", false
}

// liftArgs applies f to every combination of constant leaves when all
// arguments are constants or small ite-trees over constants (finite-domain strings).
func (ts *TermStore) liftArgs(args []*Term, f func(cs []*Term) *Term) (*Term, bool) {
	anyIte := false
	for _, a := range args {
		if a.IsConst() {
			continue
		}
		if a.Op != OIte {
			return nil, false
		}
		if iteLeafCount(a, 256) > 256 {
			return nil, false
		}
		anyIte = true
	}
	if !anyIte {
		return nil, false
	}
	// enumerate (guard, leaf-combination) pairs, group equal results: the result is an
	// ite-tree with one leaf per DISTINCT value, so repeated lifting does not blow up
	type leaf struct {
		g *Term
		v *Term
	}
	var leaves func(t *Term, g *Term, out *[]leaf)
	leaves = func(t *Term, g *Term, out *[]leaf) {
		if t.Op == OIte {
			leaves(t.Args[1], ts.And(g, t.Args[0]), out)
			leaves(t.Args[2], ts.And(g, ts.Not(t.Args[0])), out)
			return
		}
		*out = append(*out, leaf{g, t})
	}
	per := make([][]leaf, len(args))
	prod := 1
	for i, a := range args {
		var raw []leaf
		leaves(a, ts.T, &raw)
		// merge equal leaves: the limit is on DISTINCT values per argument
		idx := map[*Term]int{}
		for _, l := range raw {
			if !l.v.IsConst() {
				return nil, false
			}
			if j, ok := idx[l.v]; ok {
				per[i][j].g = ts.Or(per[i][j].g, l.g)
			} else {
				idx[l.v] = len(per[i])
				per[i] = append(per[i], l)
			}
		}
		prod *= len(per[i])
		if prod > 128 {
			return nil, false
		}
	}
	var order []*Term
	guards := map[*Term][]*Term{}
	nonConst := false
	cur := make([]*Term, len(args))
	var rec func(i int, g *Term)
	rec = func(i int, g *Term) {
		if g.IsFalse() {
			return
		}
		if i == len(args) {
			r := f(append([]*Term(nil), cur...))
			if !r.IsConst() {
				nonConst = true
			}
			if _, ok := guards[r]; !ok {
				order = append(order, r)
			}
			guards[r] = append(guards[r], g)
			return
		}
		for _, l := range per[i] {
			cur[i] = l.v
			rec(i+1, ts.And(g, l.g))
		}
	}
	rec(0, ts.T)
	_ = nonConst
	if len(order) == 0 {
		return nil, false
	}
	res := order[len(order)-1]
	for i := len(order) - 2; i >= 0; i-- {
		res = ts.Ite(ts.Or(guards[order[i]]...), order[i], res)
	}
	return res, true
}

func (ts *TermStore) StrAt(a, i *Term) *Term {
	if a.IsConst() && i.IsConst() {
		if i.BV < uint64(len(a.Str)) {
			return ts.StrC(a.Str[i.BV : i.BV+1])
		}
		return ts.StrC("")
	}
	if u, ok := ts.units(a); ok {
		if i.IsConst() {
			if i.BV < uint64(len(u)) {
				return u[i.BV]
			}
			return ts.StrC("")
		}
		if len(u) <= 64 {
			res := ts.StrC("")
			for k := len(u) - 1; k >= 0; k-- {
				res = ts.Ite(ts.Eq(i, ts.Int(int64(k))), u[k], res)
			}
			return res
		}
	}
	if r, ok := ts.liftArgs([]*Term{a, i}, func(c []*Term) *Term { return ts.StrAt(c[0], c[1]) }); ok {
		return r
	}
	return ts.mk(OStrAt, StringSort, a, i)
}

func (ts *TermStore) StrSubstr(a, off, n *Term) *Term {
	if a.IsConst() && off.IsConst() && n.IsConst() {
		o, l := signed(off.BV, 64), signed(n.BV, 64)
		if o < 0 || o > int64(len(a.Str)) || l <= 0 {
			return ts.StrC("")
		}
		e := o + l
		if e > int64(len(a.Str)) {
			e = int64(len(a.Str))
		}
		return ts.StrC(a.Str[o:e])
	}
	if off.IsConst() && n.IsConst() {
		if u, ok := ts.units(a); ok {
			o, l := signed(off.BV, 64), signed(n.BV, 64)
			if o < 0 || o > int64(len(u)) || l <= 0 {
				return ts.StrC("")
			}
			e := o + l
			if e > int64(len(u)) || e < o {
				e = int64(len(u))
			}
			return ts.StrConcat(u[o:e]...)
		}
	}
	if a.Op == OIte {
		if n0 := ts.iteOfUnits(a, 16); n0 > 1 {
			return ts.distribute(a, func(x *Term) *Term { return ts.StrSubstr(x, off, n) })
		}
	}
	if a.Op == OStrConcat && off.IsConst() && a.Args[0].IsConst() {
		cp := a.Args[0].Str
		o := signed(off.BV, 64)
		// entirely inside the constant prefix
		if n.IsConst() && o >= 0 && o+signed(n.BV, 64) <= int64(len(cp)) && signed(n.BV, 64) >= 0 {
			return ts.StrC(cp[o : o+signed(n.BV, 64)])
		}
		// from inside/at the end of the constant prefix to the end of the string
		if o >= 0 && o <= int64(len(cp)) {
			rest := ts.StrConcat(append([]*Term{ts.StrC(cp[o:])}, a.Args[1:]...)...)
			if n == ts.StrLen(rest) {
				return rest
			}
		}
	}
	if r, ok := ts.liftArgs([]*Term{a, off, n}, func(c []*Term) *Term { return ts.StrSubstr(c[0], c[1], c[2]) }); ok {
		return r
	}
	return ts.mk(OStrSubstr, StringSort, a, off, n)
}

func (ts *TermStore) StrPred(op Op, a, b *Term) *Term {
	if !(a.IsConst() && b.IsConst()) {
		pa, fa := constPrefix(a)
		pb, fb := constPrefix(b)
		switch op {
		case OStrLt, OStrLe:
			n := len(pa)
			if len(pb) < n {
				n = len(pb)
			}
			for i := 0; i < n; i++ {
				if pa[i] != pb[i] {
					return ts.Bool(pa[i] < pb[i])
				}
			}
			// a is a complete constant and a proper prefix of b's known prefix: a < b
			if fa && len(pa) < len(pb) {
				return ts.T
			}
			if fa && len(pa) == len(pb) && op == OStrLe {
				return ts.T // a is a prefix of b
			}
			if fb && len(pb) < len(pa) {
				return ts.F // b is a proper prefix of a
			}
		case OStrPrefixOf: // a prefix of b
			if fa && len(pa) <= len(pb) {
				return ts.Bool(pb[:len(pa)] == pa)
			}
			if fa && !fb {
				for i := 0; i < len(pb) && i < len(pa); i++ {
					if pa[i] != pb[i] {
						return ts.F
					}
				}
			}
		}
	}
	if a.IsConst() && b.IsConst() {
		switch op {
		case OStrPrefixOf:
			return ts.Bool(strings.HasPrefix(b.Str, a.Str))
		case OStrSuffixOf:
			return ts.Bool(strings.HasSuffix(b.Str, a.Str))
		case OStrContains:
			return ts.Bool(strings.Contains(a.Str, b.Str))
		case OStrLt:
			return ts.Bool(a.Str < b.Str)
		case OStrLe:
			return ts.Bool(a.Str <= b.Str)
		}
	}
	if a.Op == OIte || b.Op == OIte {
		if iteLeafCount(a, liftLimit)*iteLeafCount(b, liftLimit) <= 64 {
			return ts.lift1(a, func(x *Term) *Term {
				return ts.lift1(b, func(y *Term) *Term { return ts.StrPred(op, x, y) })
			})
		}
	}
	if a == b {
		switch op {
		case OStrLt:
			return ts.F
		default:
			return ts.T
		}
	}
	if r, ok := ts.liftArgs([]*Term{a, b}, func(c []*Term) *Term { return ts.StrPred(op, c[0], c[1]) }); ok {
		return r
	}
	if a.Op == OIte {
		if n := ts.iteOfUnits(a, 16); n > 1 {
			return ts.lift1Bool(a, func(x *Term) *Term { return ts.StrPred(op, x, b) })
		}
	}
	if b.Op == OIte {
		if n := ts.iteOfUnits(b, 16); n > 1 {
			return ts.lift1Bool(b, func(y *Term) *Term { return ts.StrPred(op, a, y) })
		}
	}
	if op == OStrLt || op == OStrLe {
		// byte-wise lexicographic order on unit sequences: pure bit-vector comparison
		ua, oka := ts.units(a)
		ub, okb := ts.units(b)
		if oka && okb && len(ua) <= 64 && len(ub) <= 64 {
			n := len(ua)
			if len(ub) < n {
				n = len(ub)
			}
			eqPrefix := ts.T
			var lt []*Term
			for i := 0; i < n; i++ {
				ca, cb := ts.unitCode(ua[i]), ts.unitCode(ub[i])
				lt = append(lt, ts.And(eqPrefix, ts.BvCmp(OBvUlt, ca, cb)))
				eqPrefix = ts.And(eqPrefix, ts.Eq(ca, cb))
			}
			// equal on the common prefix: the shorter one is smaller; equal strings only satisfy <=
			switch {
			case len(ua) < len(ub):
				lt = append(lt, eqPrefix)
			case len(ua) == len(ub) && op == OStrLe:
				lt = append(lt, eqPrefix)
			}
			return ts.Or(lt...)
		}
	}
	if op == OStrPrefixOf {
		ua, oka := ts.units(a)
		ub, okb := ts.units(b)
		if oka && okb {
			if len(ua) > len(ub) {
				return ts.F
			}
			var eq []*Term
			for i := range ua {
				eq = append(eq, ts.Eq(ts.unitCode(ua[i]), ts.unitCode(ub[i])))
			}
			return ts.And(eq...)
		}
	}
	return ts.mk(op, BoolSort, a, b)
}

func (ts *TermStore) StrIndexOf(s, sub, from *Term) *Term {
	if s.IsConst() && sub.IsConst() && from.IsConst() {
		f := signed(from.BV, 64)
		if f < 0 || f > int64(len(s.Str)) {
			return ts.Int(-1)
		}
		i := strings.Index(s.Str[f:], sub.Str)
		if i < 0 {
			return ts.Int(-1)
		}
		return ts.Int(int64(i) + f)
	}
	if sub.IsConst() && from.IsConst() && from.BV == 0 && !s.IsConst() {
		if cp, _ := constPrefix(s); cp != "" {
			if i := strings.Index(cp, sub.Str); i >= 0 {
				return ts.Int(int64(i))
			}
		}
	}
	if r, ok := ts.liftArgs([]*Term{s, sub, from}, func(c []*Term) *Term { return ts.StrIndexOf(c[0], c[1], c[2]) }); ok {
		return r
	}
	if s.Op == OIte && sub.IsConst() && from.IsConst() {
		if n := ts.iteOfUnits(s, 16); n > 1 {
			return ts.distribute(s, func(x *Term) *Term { return ts.StrIndexOf(x, sub, from) })
		}
	}
	if sub.IsConst() && len(sub.Str) == 1 && from.IsConst() {
		if u, ok := ts.units(s); ok && len(u) <= 128 {
			res := ts.Int(-1)
			ch := ts.Int(int64(sub.Str[0]))
			for i := len(u) - 1; i >= int(from.BV) && i >= 0; i-- {
				res = ts.Ite(ts.Eq(ts.unitCode(u[i]), ch), ts.Int(int64(i)), res)
			}
			return res
		}
	}
	return ts.mk(OStrIndexOf, BVSort(64), s, sub, from)
}

func (ts *TermStore) StrToCode(a *Term) *Term {
	if a.IsConst() {
		if len(a.Str) == 1 {
			return ts.Int(int64(a.Str[0]))
		}
		return ts.Int(-1)
	}
	if a.Op == OStrFromCode {
		return a.Args[0]
	}
	if u, ok := ts.units(a); ok && len(u) == 1 {
		return ts.unitCode(u[0])
	}
	if a.Op == OIte && iteLeafCount(a, liftLimit) <= liftLimit {
		return ts.lift1(a, func(x *Term) *Term { return ts.StrToCode(x) })
	}
	return ts.mk(OStrToCode, BVSort(64), a)
}

func (ts *TermStore) StrFromCode(a *Term) *Term {
	if a.IsConst() {
		if a.BV < 256 {
			return ts.StrC(string([]byte{byte(a.BV)}))
		}
		return ts.StrC("")
	}
	if a.Op == OIte && iteLeafCount(a, liftLimit) <= liftLimit {
		return ts.lift1(a, func(x *Term) *Term { return ts.StrFromCode(x) })
	}
	return ts.mk(OStrFromCode, StringSort, a)
}

// ---- free variables ----

func (t *Term) Vars() map[string]*Term {
	if t.vars != nil {
		return t.vars
	}
	m := map[string]*Term{}
	seen := map[int]bool{}
	var walk func(x *Term)
	walk = func(x *Term) {
		if seen[x.id] {
			return
		}
		seen[x.id] = true
		if x.Op == OVar {
			m[x.Name] = x
			return
		}
		if x.vars != nil {
			for k, v := range x.vars {
				m[k] = v
			}
			return
		}
		for _, a := range x.Args {
			walk(a)
		}
	}
	walk(t)
	t.vars = m
	return m
}

// ---- concrete evaluation ----

type CVal struct {
	S   Sort
	BV  uint64
	B   bool
	Str string
}

type Model map[string]CVal

func (m Model) Clone() Model {
	n := make(Model, len(m))
	for k, v := range m {
		n[k] = v
	}
	return n
}

type evaluator struct {
	ts   *TermStore
	m    Model
	memo map[int]CVal
}

// Eval evaluates t under m; variables missing from m take the default value
// (0, false, ""), which keeps any total assignment a valid witness.
func (ts *TermStore) Eval(t *Term, m Model) CVal {
	e := &evaluator{ts: ts, m: m, memo: map[int]CVal{}}
	return e.eval(t)
}

func (ts *TermStore) EvalBool(t *Term, m Model) bool { return ts.Eval(t, m).B }

func (e *evaluator) eval(t *Term) CVal {
	if v, ok := e.memo[t.id]; ok {
		return v
	}
	v := e.eval1(t)
	e.memo[t.id] = v
	return v
}

func (e *evaluator) eval1(t *Term) CVal {
	switch t.Op {
	case OConst:
		return CVal{S: t.S, BV: t.BV, B: t.B, Str: t.Str}
	case OVar:
		if v, ok := e.m[t.Name]; ok {
			v.S = t.S
			if t.S.K == SBV {
				v.BV &= mask(t.S.W)
			}
			return v
		}
		return CVal{S: t.S}
	case ONot:
		return CVal{S: BoolSort, B: !e.eval(t.Args[0]).B}
	case OAnd:
		for _, a := range t.Args {
			if !e.eval(a).B {
				return CVal{S: BoolSort, B: false}
			}
		}
		return CVal{S: BoolSort, B: true}
	case OOr:
		for _, a := range t.Args {
			if e.eval(a).B {
				return CVal{S: BoolSort, B: true}
			}
		}
		return CVal{S: BoolSort, B: false}
	case OEq:
		a, b := e.eval(t.Args[0]), e.eval(t.Args[1])
		switch a.S.K {
		case SBool:
			return CVal{S: BoolSort, B: a.B == b.B}
		case SBV:
			return CVal{S: BoolSort, B: a.BV == b.BV}
		default:
			return CVal{S: BoolSort, B: a.Str == b.Str}
		}
	case OIte:
		if e.eval(t.Args[0]).B {
			return e.eval(t.Args[1])
		}
		return e.eval(t.Args[2])
	case OBvAdd, OBvSub, OBvMul, OBvUDiv, OBvSDiv, OBvURem, OBvSRem, OBvAnd, OBvOr, OBvXor, OBvShl, OBvLshr, OBvAshr:
		a, b := e.eval(t.Args[0]), e.eval(t.Args[1])
		v, _ := e.ts.foldBin(t.Op, a.BV, b.BV, t.S.W)
		return CVal{S: t.S, BV: v}
	case OBvNot:
		return CVal{S: t.S, BV: ^e.eval(t.Args[0]).BV & mask(t.S.W)}
	case OBvNeg:
		return CVal{S: t.S, BV: -e.eval(t.Args[0]).BV & mask(t.S.W)}
	case OBvUlt, OBvUle, OBvSlt, OBvSle:
		a, b := e.eval(t.Args[0]), e.eval(t.Args[1])
		w := t.Args[0].S.W
		var r bool
		switch t.Op {
		case OBvUlt:
			r = a.BV < b.BV
		case OBvUle:
			r = a.BV <= b.BV
		case OBvSlt:
			r = signed(a.BV, w) < signed(b.BV, w)
		case OBvSle:
			r = signed(a.BV, w) <= signed(b.BV, w)
		}
		return CVal{S: BoolSort, B: r}
	case OExtract:
		a := e.eval(t.Args[0])
		return CVal{S: t.S, BV: (a.BV >> uint(t.I2)) & mask(t.S.W)}
	case OZext:
		return CVal{S: t.S, BV: e.eval(t.Args[0]).BV}
	case OSext:
		a := e.eval(t.Args[0])
		return CVal{S: t.S, BV: uint64(signed(a.BV, t.Args[0].S.W)) & mask(t.S.W)}
	case OStrConcat:
		var sb strings.Builder
		for _, a := range t.Args {
			sb.WriteString(e.eval(a).Str)
		}
		return CVal{S: StringSort, Str: sb.String()}
	case OStrLen:
		return CVal{S: t.S, BV: uint64(len(e.eval(t.Args[0]).Str))}
	case OStrAt:
		s, i := e.eval(t.Args[0]).Str, e.eval(t.Args[1]).BV
		if i < uint64(len(s)) {
			return CVal{S: StringSort, Str: s[i : i+1]}
		}
		return CVal{S: StringSort}
	case OStrSubstr:
		s := e.eval(t.Args[0]).Str
		o, l := signed(e.eval(t.Args[1]).BV, 64), signed(e.eval(t.Args[2]).BV, 64)
		if o < 0 || o > int64(len(s)) || l <= 0 {
			return CVal{S: StringSort}
		}
		end := o + l
		if end > int64(len(s)) || end < o {
			end = int64(len(s))
		}
		return CVal{S: StringSort, Str: s[o:end]}
	case OStrPrefixOf:
		return CVal{S: BoolSort, B: strings.HasPrefix(e.eval(t.Args[1]).Str, e.eval(t.Args[0]).Str)}
	case OStrSuffixOf:
		return CVal{S: BoolSort, B: strings.HasSuffix(e.eval(t.Args[1]).Str, e.eval(t.Args[0]).Str)}
	case OStrContains:
		return CVal{S: BoolSort, B: strings.Contains(e.eval(t.Args[0]).Str, e.eval(t.Args[1]).Str)}
	case OStrLt:
		return CVal{S: BoolSort, B: e.eval(t.Args[0]).Str < e.eval(t.Args[1]).Str}
	case OStrLe:
		return CVal{S: BoolSort, B: e.eval(t.Args[0]).Str <= e.eval(t.Args[1]).Str}
	case OStrIndexOf:
		s, sub := e.eval(t.Args[0]).Str, e.eval(t.Args[1]).Str
		f := signed(e.eval(t.Args[2]).BV, 64)
		if f < 0 || f > int64(len(s)) {
			return CVal{S: t.S, BV: ^uint64(0)}
		}
		i := strings.Index(s[f:], sub)
		if i < 0 {
			return CVal{S: t.S, BV: ^uint64(0)}
		}
		return CVal{S: t.S, BV: uint64(int64(i) + f)}
	case OStrToCode:
		s := e.eval(t.Args[0]).Str
		if len(s) == 1 {
			return CVal{S: t.S, BV: uint64(s[0])}
		}
		return CVal{S: t.S, BV: ^uint64(0)}
	case OStrFromCode:
		c := e.eval(t.Args[0]).BV
		if c < 256 {
			return CVal{S: StringSort, Str: string([]byte{byte(c)})}
		}
		return CVal{S: StringSort}
	}
	panic("eval: unknown op")
}

// ---- printing ----

func smtStr(s string) string {
	var sb strings.Builder
	sb.WriteByte('"')
	for i := 0; i < len(s); i++ {
		c := s[i]
		if c == '"' {
			sb.WriteString(`""`)
		} else if c >= 0x20 && c < 0x7f && c != '\\' {
			sb.WriteByte(c)
		} else {
			fmt.Fprintf(&sb, "\\u{%x}", c)
		}
	}
	sb.WriteByte('"')
	return sb.String()
}

func smtName(n string) string { return "|" + strings.NewReplacer("|", "_", "\\", "_").Replace(n) + "|" }

func bvLit(v uint64, w int) string {
	if w%4 == 0 {
		return fmt.Sprintf("#x%0*x", w/4, v)
	}
	return fmt.Sprintf("#b%0*b", w, v)
}

// leafSMT prints constants and variables.
func leafSMT(t *Term) string {
	switch t.Op {
	case OConst:
		switch t.S.K {
		case SBool:
			if t.B {
				return "true"
			}
			return "false"
		case SBV:
			return bvLit(t.BV, t.S.W)
		default:
			return smtStr(t.Str)
		}
	case OVar:
		return smtName(t.Name)
	}
	return ""
}

// nodeSMT prints one node, referring to children through ref.
func nodeSMT(t *Term, ref func(*Term) string) string {
	a := func(i int) string { return ref(t.Args[i]) }
	switch t.Op {
	case OConst, OVar:
		return leafSMT(t)
	case OExtract:
		return fmt.Sprintf("((_ extract %d %d) %s)", t.I1, t.I2, a(0))
	case OZext:
		return fmt.Sprintf("((_ zero_extend %d) %s)", t.I1, a(0))
	case OSext:
		return fmt.Sprintf("((_ sign_extend %d) %s)", t.I1, a(0))
	case OStrLen:
		return fmt.Sprintf("((_ int2bv 64) (str.len %s))", a(0))
	case OStrAt:
		return fmt.Sprintf("(str.at %s (bv2nat %s))", a(0), a(1))
	case OStrSubstr:
		// negative (signed) offsets/lengths yield "" like the evaluator
		return fmt.Sprintf("(ite (or (bvslt %s #x0000000000000000) (bvsle %s #x0000000000000000)) \"\" (str.substr %s (bv2nat %s) (bv2nat %s)))", a(1), a(2), a(0), a(1), a(2))
	case OStrIndexOf:
		return fmt.Sprintf("(ite (bvslt %s #x0000000000000000) #xffffffffffffffff (let ((ix (str.indexof %s %s (bv2nat %s)))) (ite (< ix 0) #xffffffffffffffff ((_ int2bv 64) ix))))", a(2), a(0), a(1), a(2))
	case OStrToCode:
		return fmt.Sprintf("(let ((cd (str.to_code %s))) (ite (< cd 0) #xffffffffffffffff ((_ int2bv 64) cd)))", a(0))
	case OStrFromCode:
		return fmt.Sprintf("(ite (bvult %s #x0000000000000100) (str.from_code (bv2nat %s)) \"\")", a(0), a(0))
	}
	name, ok := opNames[t.Op]
	if !ok {
		panic(fmt.Sprintf("nodeSMT: op %d", t.Op))
	}
	var sb strings.Builder
	sb.WriteByte('(')
	sb.WriteString(name)
	for i := range t.Args {
		sb.WriteByte(' ')
		sb.WriteString(a(i))
	}
	sb.WriteByte(')')
	return sb.String()
}

// Show prints a term as a tree (debugging / evidence samples); large terms are cut.
func (ts *TermStore) Show(t *Term) string {
	budget := 400
	var rec func(x *Term) string
	rec = func(x *Term) string {
		budget--
		if budget < 0 {
			return "…"
		}
		return nodeSMT(x, rec)
	}
	return rec(t)
}

func sortedVarNames(m map[string]*Term) []string {
	ns := make([]string, 0, len(m))
	for k := range m {
		ns = append(ns, k)
	}
	sort.Strings(ns)
	return ns
}
