package main

// One long-lived solver process per worker. Every non-leaf term is introduced
// once at the base level as a zero-arity define-fun (so shared DAG nodes are
// never re-printed); queries are push / assert / check-sat / get-value / pop.

import (
	"bufio"
	"fmt"
	"io"
	"os"
	"os/exec"
	"strconv"
	"strings"
	"time"
)

type SolverResult int

const (
	Sat SolverResult = iota
	Unsat
	Unknown
)

func (r SolverResult) String() string { return [...]string{"sat", "unsat", "unknown"}[r] }

type SolverStats struct {
	Sat, Unsat, Unknown, Errors int
	Time                        time.Duration
	CacheHits                   int
	ModelReuse                  int
	MaxQuery                    time.Duration
}

type Solver struct {
	ts       *TermStore
	cmd      *exec.Cmd
	in       io.WriteCloser
	out      *bufio.Reader
	defined  map[int]bool
	declared map[string]bool
	ndef     int
	Stats    SolverStats
	timeout  time.Duration
	argv     []string
	log      io.Writer
	cache    map[string]cacheEnt
	dead     bool
}

type cacheEnt struct {
	r SolverResult
	m Model
}

func solverArgv(kind string, timeoutMs int) []string {
	switch kind {
	case "z3-new":
		return []string{"z3-new", "-in", fmt.Sprintf("-t:%d", timeoutMs)}
	case "cvc5":
		return []string{"cvc5", "--incremental", "--produce-models", "--strings-exp", "--lang=smt2", fmt.Sprintf("--tlimit-per=%d", timeoutMs)}
	default:
		return []string{"z3", "-in", fmt.Sprintf("-t:%d", timeoutMs)}
	}
}

func NewSolver(ts *TermStore, kind string, timeout time.Duration) (*Solver, error) {
	s := &Solver{ts: ts, timeout: timeout, argv: solverArgv(kind, int(timeout/time.Millisecond)), cache: map[string]cacheEnt{}}
	if p := os.Getenv("GOSYM_SMTLOG"); p != "" {
		f, _ := os.Create(fmt.Sprintf("%s.%d", p, time.Now().UnixNano()))
		s.log = f
	}
	if err := s.start(); err != nil {
		return nil, err
	}
	return s, nil
}

func (s *Solver) start() error {
	s.cmd = exec.Command(s.argv[0], s.argv[1:]...)
	in, err := s.cmd.StdinPipe()
	if err != nil {
		return err
	}
	out, err := s.cmd.StdoutPipe()
	if err != nil {
		return err
	}
	s.cmd.Stderr = s.cmd.Stdout
	if err := s.cmd.Start(); err != nil {
		return err
	}
	s.in = in
	s.out = bufio.NewReaderSize(out, 1<<16)
	s.defined = map[int]bool{}
	s.declared = map[string]bool{}
	s.ndef = 0
	s.dead = false
	if s.argv[0] == "cvc5" {
		s.send("(set-logic ALL)\n")
	}
	s.send("(set-option :produce-models true)\n")
	return nil
}

func (s *Solver) Close() {
	if s.cmd != nil && s.cmd.Process != nil {
		s.in.Close()
		s.cmd.Process.Kill()
		s.cmd.Wait()
	}
}

func (s *Solver) restart() {
	s.Close()
	if err := s.start(); err != nil {
		s.dead = true
	}
}

func (s *Solver) send(text string) {
	if s.log != nil {
		io.WriteString(s.log, text)
	}
	io.WriteString(s.in, text)
}

func (s *Solver) ref(t *Term) string {
	if t.Op == OConst || t.Op == OVar {
		return leafSMT(t)
	}
	return "t" + strconv.Itoa(t.id)
}

// define emits declarations/definitions for t (post-order, iterative to keep
// the Go stack small on long ite chains).
func (s *Solver) define(t *Term, sb *strings.Builder) {
	type fr struct {
		t *Term
		i int
	}
	stack := []fr{{t, 0}}
	for len(stack) > 0 {
		f := &stack[len(stack)-1]
		x := f.t
		if x.Op == OConst {
			stack = stack[:len(stack)-1]
			continue
		}
		if x.Op == OVar {
			if !s.declared[x.Name] {
				s.declared[x.Name] = true
				fmt.Fprintf(sb, "(declare-const %s %s)\n", smtName(x.Name), x.S.SMT())
			}
			stack = stack[:len(stack)-1]
			continue
		}
		if s.defined[x.id] {
			stack = stack[:len(stack)-1]
			continue
		}
		if f.i < len(x.Args) {
			c := x.Args[f.i]
			f.i++
			stack = append(stack, fr{c, 0})
			continue
		}
		s.defined[x.id] = true
		s.ndef++
		fmt.Fprintf(sb, "(define-fun t%d () %s %s)\n", x.id, x.S.SMT(), nodeSMT(x, s.ref))
		stack = stack[:len(stack)-1]
	}
}

func (s *Solver) readLine() (string, error) {
	line, err := s.out.ReadString('\n')
	return strings.TrimRight(line, "\r\n"), err
}

// readSexp reads a balanced s-expression (possibly over several lines).
func (s *Solver) readSexp() (string, error) {
	var sb strings.Builder
	depth := 0
	inStr := false
	started := false
	for {
		c, err := s.out.ReadByte()
		if err != nil {
			return sb.String(), err
		}
		sb.WriteByte(c)
		if inStr {
			if c == '"' {
				inStr = false
			}
			continue
		}
		switch c {
		case '"':
			inStr = true
		case '(':
			depth++
			started = true
		case ')':
			depth--
			if started && depth == 0 {
				return sb.String(), nil
			}
		case '\n':
			if !started && strings.TrimSpace(sb.String()) != "" {
				return sb.String(), nil
			}
		}
	}
}

// Check decides satisfiability of the conjunction of conds. If wantModel it
// returns values for every free variable of the query.
func (s *Solver) Check(conds []*Term, wantModel bool) (SolverResult, Model) {
	if s.dead {
		s.Stats.Errors++
		return Unknown, nil
	}
	// cache key: sorted term ids
	ids := make([]int, 0, len(conds))
	for _, c := range conds {
		if c.IsFalse() {
			return Unsat, nil
		}
		if c.IsTrue() {
			continue
		}
		ids = append(ids, c.id)
	}
	if len(ids) == 0 {
		return Sat, Model{}
	}
	sortInts(ids)
	var kb strings.Builder
	for _, id := range ids {
		kb.WriteString(strconv.Itoa(id))
		kb.WriteByte(',')
	}
	key := kb.String()
	if e, ok := s.cache[key]; ok && (!wantModel || e.r != Sat || e.m != nil) {
		s.Stats.CacheHits++
		return e.r, e.m
	}
	if s.ndef > 60000 {
		s.restart()
	}
	start := time.Now()
	var sb strings.Builder
	vars := map[string]*Term{}
	for _, c := range conds {
		s.define(c, &sb)
		for k, v := range c.Vars() {
			vars[k] = v
		}
	}
	sb.WriteString("(push 1)\n")
	for _, c := range conds {
		if c.IsTrue() {
			continue
		}
		fmt.Fprintf(&sb, "(assert %s)\n", s.ref(c))
	}
	sb.WriteString("(check-sat)\n")
	res := Unknown
	// hard deadline (covers a blocked write as well): z3's -t is only a soft limit
	killed := false
	timer := time.AfterFunc(s.timeout+5*time.Second, func() {
		killed = true
		if s.cmd != nil && s.cmd.Process != nil {
			s.cmd.Process.Kill()
		}
	})
	defer timer.Stop()
	s.send(sb.String())
	line, err := s.readLine()
	for err == nil && line == "" {
		line, err = s.readLine()
	}
	if killed {
		s.Stats.Unknown++
		s.Stats.Time += time.Since(start)
		fmt.Fprintf(os.Stderr, "solver: hard timeout after %s; restarting\n", time.Since(start))
		s.restart()
		return Unknown, nil
	}
	if err != nil {
		s.Stats.Errors++
		s.restart()
		return Unknown, nil
	}
	switch {
	case line == "sat":
		res = Sat
	case line == "unsat":
		res = Unsat
	case strings.HasPrefix(line, "unknown") || strings.HasPrefix(line, "timeout"):
		res = Unknown
	default:
		// (error ...) or anything unexpected: inconclusive
		s.Stats.Errors++
		fmt.Fprintf(os.Stderr, "solver: unexpected output: %s\n", line)
		s.restart()
		return Unknown, nil
	}
	var m Model
	if res == Sat && wantModel && len(vars) > 0 {
		names := sortedVarNames(vars)
		var q strings.Builder
		q.WriteString("(get-value (")
		for _, n := range names {
			q.WriteString(smtName(n))
			q.WriteByte(' ')
		}
		q.WriteString("))\n")
		s.send(q.String())
		txt, err := s.readSexp()
		if killed {
			s.Stats.Unknown++
			s.Stats.Time += time.Since(start)
			fmt.Fprintf(os.Stderr, "solver: hard timeout in get-value after %s; restarting\n", time.Since(start))
			s.restart()
			return Unknown, nil
		}
		if err != nil || strings.Contains(txt, "(error") {
			s.Stats.Errors++
			fmt.Fprintf(os.Stderr, "solver: get-value failed: %s\n", txt)
			s.restart()
			return Unknown, nil
		}
		m = parseModel(txt, vars)
	} else if res == Sat && len(vars) == 0 {
		m = Model{}
	}
	s.send("(pop 1)\n")
	d := time.Since(start)
	if os.Getenv("GOSYM_SLOW") != "" && d > 500*time.Millisecond {
		fmt.Fprintf(os.Stderr, "SLOW %s (%s): last conjunct: %s\n", d, res, s.ts.Show(conds[len(conds)-1]))
	}
	s.Stats.Time += d
	if d > s.Stats.MaxQuery {
		s.Stats.MaxQuery = d
	}
	switch res {
	case Sat:
		s.Stats.Sat++
	case Unsat:
		s.Stats.Unsat++
	default:
		s.Stats.Unknown++
	}
	if res != Unknown {
		if len(s.cache) > 200000 {
			s.cache = map[string]cacheEnt{}
		}
		s.cache[key] = cacheEnt{res, m}
	}
	return res, m
}

func sortInts(a []int) {
	// insertion sort for short lists, else stdlib
	if len(a) < 12 {
		for i := 1; i < len(a); i++ {
			for j := i; j > 0 && a[j-1] > a[j]; j-- {
				a[j-1], a[j] = a[j], a[j-1]
			}
		}
		return
	}
	sortIntsStd(a)
}

// parseModel parses "((|a| #x01) (|b| true) (|c| "str"))".
func parseModel(txt string, vars map[string]*Term) Model {
	m := Model{}
	p := &sexpParser{s: txt}
	p.skipWS()
	if !p.eat('(') {
		return m
	}
	for {
		p.skipWS()
		if p.peek() == ')' || p.eof() {
			break
		}
		if !p.eat('(') {
			break
		}
		p.skipWS()
		name := p.symbol()
		p.skipWS()
		v := vars[name]
		val := p.value()
		p.skipWS()
		p.eat(')')
		if v == nil {
			continue
		}
		cv := CVal{S: v.S}
		switch v.S.K {
		case SBool:
			cv.B = val == "true"
		case SBV:
			cv.BV = parseBV(val)
		default:
			cv.Str = val
		}
		m[name] = cv
	}
	return m
}

type sexpParser struct {
	s string
	i int
}

func (p *sexpParser) eof() bool { return p.i >= len(p.s) }
func (p *sexpParser) peek() byte {
	if p.eof() {
		return 0
	}
	return p.s[p.i]
}
func (p *sexpParser) eat(c byte) bool {
	if p.peek() == c {
		p.i++
		return true
	}
	return false
}
func (p *sexpParser) skipWS() {
	for !p.eof() && (p.s[p.i] == ' ' || p.s[p.i] == '\n' || p.s[p.i] == '\t' || p.s[p.i] == '\r') {
		p.i++
	}
}
func (p *sexpParser) symbol() string {
	if p.peek() == '|' {
		p.i++
		st := p.i
		for !p.eof() && p.s[p.i] != '|' {
			p.i++
		}
		r := p.s[st:p.i]
		p.i++
		return r
	}
	st := p.i
	for !p.eof() && !strings.ContainsRune(" \n\t()", rune(p.s[p.i])) {
		p.i++
	}
	return p.s[st:p.i]
}

// value returns: for strings the decoded Go string, else the raw token/sexp.
func (p *sexpParser) value() string {
	if p.peek() == '"' {
		p.i++
		var sb strings.Builder
		for !p.eof() {
			c := p.s[p.i]
			if c == '"' {
				if p.i+1 < len(p.s) && p.s[p.i+1] == '"' {
					sb.WriteByte('"')
					p.i += 2
					continue
				}
				p.i++
				break
			}
			if c == '\\' && p.i+1 < len(p.s) && p.s[p.i+1] == 'u' {
				// \u{X..} or \uXXXX
				j := p.i + 2
				var hex string
				if j < len(p.s) && p.s[j] == '{' {
					k := strings.IndexByte(p.s[j:], '}')
					if k > 0 {
						hex = p.s[j+1 : j+k]
						j = j + k + 1
					}
				} else if j+4 <= len(p.s) {
					hex = p.s[j : j+4]
					j += 4
				}
				if v, err := strconv.ParseUint(hex, 16, 32); err == nil {
					if v < 256 {
						sb.WriteByte(byte(v))
					} else {
						sb.WriteByte('?')
					}
					p.i = j
					continue
				}
			}
			if c == '\\' && p.i+3 < len(p.s) && p.s[p.i+1] == 'x' {
				if v, err := strconv.ParseUint(p.s[p.i+2:p.i+4], 16, 8); err == nil {
					sb.WriteByte(byte(v))
					p.i += 4
					continue
				}
			}
			sb.WriteByte(c)
			p.i++
		}
		return sb.String()
	}
	if p.peek() == '(' {
		depth := 0
		st := p.i
		for !p.eof() {
			if p.s[p.i] == '(' {
				depth++
			} else if p.s[p.i] == ')' {
				depth--
				if depth == 0 {
					p.i++
					break
				}
			}
			p.i++
		}
		return p.s[st:p.i]
	}
	return p.symbol()
}

func parseBV(tok string) uint64 {
	if strings.HasPrefix(tok, "#x") {
		v, _ := strconv.ParseUint(tok[2:], 16, 64)
		return v
	}
	if strings.HasPrefix(tok, "#b") {
		v, _ := strconv.ParseUint(tok[2:], 2, 64)
		return v
	}
	if strings.HasPrefix(tok, "(_ bv") {
		f := strings.Fields(tok[5:])
		if len(f) > 0 {
			v, _ := strconv.ParseUint(f[0], 10, 64)
			return v
		}
	}
	return 0
}
