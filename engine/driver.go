package main

import (
	"crypto/sha256"
	"math/rand"
	"encoding/json"
	"fmt"
	"go/types"
	"os"
	"os/exec"
	"path/filepath"
	"runtime/debug"
	"sort"
	"strings"
	"sync"
	"time"

	"golang.org/x/tools/go/ssa"
)

type Job struct {
	Prop     string
	Func     string // package-path.FuncName of the harness entry
	Pkg      string
	Args     []int64
	MaxSteps int
	MaxLen   int
	Unwind   int
	Timeout  time.Duration
	Label    string
}

type Violation struct {
	Kind   string                 `json:"kind"`
	Label  string                 `json:"label"`
	Msg    string                 `json:"msg"`
	Tags   []string               `json:"tags,omitempty"`
	Inputs map[string]interface{} `json:"inputs"`
	Notes  []string               `json:"notes,omitempty"`
	Func   string                 `json:"harness"`
	Args   []int64                `json:"args"`
	// filled by the driver
	Signature  string `json:"signature"`
	Replay     string `json:"replay,omitempty"`
	Reproduced *bool  `json:"reproduced,omitempty"`
	Known      bool   `json:"known"`
	Foreign    bool   `json:"other_property_label,omitempty"`
}

type JobResult struct {
	Job          *Job
	Paths        int
	Ends         map[string]int
	Forks        int
	Branches     int
	Obligations  int
	Discharged   int
	Unknown      int
	AssumePruned int
	Violations   []Violation
	violSeen     map[string]int
	Covers       map[string]int
	Asserts      map[string][2]int // label -> [discharged, failed]
	Funcs        map[string]string
	Stubs        map[string]int
	Intrinsics   map[string]int
	Transparent  map[string]int
	Notes        []string
	Inconclusive []string
	Samples      []map[string]interface{}
	Solver       SolverStats
	Wall         time.Duration
	Steps        int
	QueryPos     map[string]int
	CrossChecked, CrossDisagree, CrossUnknown int
}

func newJobResult(j *Job) *JobResult {
	return &JobResult{Job: j, Ends: map[string]int{}, Covers: map[string]int{}, Asserts: map[string][2]int{}, Funcs: map[string]string{},
		Stubs: map[string]int{}, Intrinsics: map[string]int{}, Transparent: map[string]int{}, violSeen: map[string]int{}}
}

func (r *JobResult) note(s string) {
	if len(r.Notes) < 50 {
		r.Notes = append(r.Notes, s)
	}
}
func (r *JobResult) cover(l string)          { r.Covers[l]++ }
func (r *JobResult) useStub(n string)        { r.Stubs[n]++ }
func (r *JobResult) useIntrinsic(n string)   { r.Intrinsics[n]++ }
func (r *JobResult) useTransparent(n string) { r.Transparent[n]++ }
func (r *JobResult) useFunc(e *Engine, fn *ssa.Function) {
	n := fn.String()
	if _, ok := r.Funcs[n]; ok {
		return
	}
	if strings.Contains(n, "zz_verif") || strings.Contains(n, "Verif") {
		// harness functions are not "functions encoded"
	}
	loc, h := e.w.fnSource(fn)
	r.Funcs[n] = loc + " " + h
}
func (r *JobResult) assertSeen(l string, ok bool) {
	a := r.Asserts[l]
	if ok {
		a[0]++
	} else {
		a[1]++
	}
	r.Asserts[l] = a
}
func (r *JobResult) addViolation(v Violation) {
	v.Signature = sigOf(v.Kind+":"+v.Label, v.Tags)
	r.violSeen[v.Signature]++
	if r.violSeen[v.Signature] > 3 { // keep a few witnesses per signature
		return
	}
	r.Violations = append(r.Violations, v)
}

// runJob explores all paths of one harness entry.
func runJob(w *World, j *Job, solverKind string) (res *JobResult) {
	res = newJobResult(j)
	if profileQueries {
		res.QueryPos = map[string]int{}
	}
	start := time.Now()
	defer func() {
		res.Wall = time.Since(start)
		if r := recover(); r != nil {
			res.Inconclusive = append(res.Inconclusive, fmt.Sprintf("engine error: %v\n%s", r, debug.Stack()))
		}
	}()
	ts := NewTermStore()
	sv, err := NewSolver(ts, solverKind, 30*time.Second)
	if err != nil {
		res.Inconclusive = append(res.Inconclusive, "solver start: "+err.Error())
		return
	}
	defer sv.Close()
	e := &Engine{w: w, ts: ts, solver: sv, cellCache: map[types.Type]int{}, fnInfos: map[*ssa.Function]*FnInfo{}, res: res, job: j,
		deadline: start.Add(j.Timeout), trace: os.Getenv("GOSYM_TRACE") != ""}
	if crossSolver != "" {
		if cs, err := NewSolver(ts, crossSolver, 30*time.Second); err == nil {
			e.cross = cs
			defer cs.Close()
		}
	}
	e.errType = types.NewPointer(w.lookupType("errors", "errorString"))
	e.wrapType = types.NewPointer(w.lookupType("fmt", "wrapError"))
	e.ctxType = types.NewPointer(w.lookupType("context", "cancelCtx"))
	pkg := w.pkg(j.Pkg)
	if pkg == nil {
		res.Inconclusive = append(res.Inconclusive, "harness package not loaded (ill-typed?): "+j.Pkg+" "+strings.Join(w.illTyped[j.Pkg], "; "))
		return
	}
	fn := pkg.Func(j.Func)
	if fn == nil {
		res.Inconclusive = append(res.Inconclusive, "harness function not found: "+j.Pkg+"."+j.Func)
		return
	}
	st := &State{heap: map[int]*Object{}, owned: map[int]bool{}, globals: map[*ssa.Global]int{}, redirect: map[string]FuncV{},
		ghost: map[string]Value{}, cmdTable: map[string]Value{}, initDone: map[*ssa.Package]bool{}, model: Model{}, unwind: j.Unwind, preemptBound: 0, threadMode: true}
	st.threads = []*Thread{{ID: 0, Name: "main"}}
	args := make([]Value, len(fn.Params))
	for i := range fn.Params {
		if i < len(j.Args) {
			args[i] = ts.Int(j.Args[i])
		} else {
			args[i] = ts.Int(0)
		}
	}
	e.pushFrame(st, fn, args, nil)
	// package initialisers of the harness package run first (they recurse into taskctl imports)
	if init := pkg.Func("init"); init != nil {
		nf := e.pushFrame(st, init, nil, nil)
		nf.IsDefer = true // return without touching the caller's registers
	}
	e.work = []*State{st}
	nDone := 0
	sampleRng := rand.New(rand.NewSource(jobSeed + int64(len(j.Args))*7919 + sumArgs(j.Args)))
	for len(e.work) > 0 {
		s := e.work[len(e.work)-1]
		e.work = e.work[:len(e.work)-1]
		end := e.runPath(s)
		res.Steps += s.steps
		s.steps = 0
		if end.kind == "fork" {
			continue
		}
		res.Ends[end.kind]++
		switch end.kind {
		case "done", "stop":
			if ea, ok := s.ghost["expectAbort"].(TupleV); ok {
				// the path returned normally: the abort condition must be false here
				e.curInstr = nil
				e.doAssertQuiet(s, e.ts.Not(ea[0].(*Term)), ea[1].(*Term).Str)
			}
			res.Paths++
			res.Branches += s.branches
			// reservoir of 4 completed paths per job (seeded), so witnesses are not just the first paths
			nDone++
			if len(res.Samples) < 4 {
				res.Samples = append(res.Samples, e.sample(s))
			} else if k := sampleRng.Intn(nDone); k < 4 && nDone < 200000 {
				res.Samples[k] = e.sample(s)
			}
		case "infeasible":
		case "panic", "abort", "deadlock":
			if ea, ok := s.ghost["expectAbort"].(TupleV); ok && end.kind == "abort" {
				// aborting is right iff the condition holds on this path
				e.curInstr = nil
				e.doAssertQuiet(s, ea[0].(*Term), ea[1].(*Term).Str+"(abort-only-then)")
				res.cover(ea[1].(*Term).Str)
				res.Paths++
				res.Ends["abort-expected"]++
				continue
			}
			res.Paths++
			res.Branches += s.branches
			label := end.kind
			if th := s.thread(); end.kind == "panic" && th.Panicking != nil {
				label = "panic:" + th.Panicking.Kind + "@" + normPos(th.Panicking.Pos)
			} else if end.kind == "abort" {
				label = "abort@" + normPos(end.msg)
			} else if end.kind == "deadlock" {
				label = "deadlock@" + normPos(end.msg)
			}
			m := e.safeModel(s)
			if m != nil {
				e.recordViolation(s, "outcome", label, end.msg, m)
			} else {
				res.Inconclusive = append(res.Inconclusive, "no model for "+end.kind+" path: "+end.msg)
			}
		default:
			res.Inconclusive = append(res.Inconclusive, end.kind+": "+end.msg)
			if len(res.Inconclusive) > 20 || end.kind == "giveup" {
				e.work = nil
			}
		}
		if time.Now().After(e.deadline) {
			res.Inconclusive = append(res.Inconclusive, fmt.Sprintf("timeout after %s with %d states pending", j.Timeout, len(e.work)))
			break
		}
	}
	res.Solver = sv.Stats
	if res.Unknown > 0 {
		res.Inconclusive = append(res.Inconclusive, fmt.Sprintf("%d solver unknown/timeout answers", res.Unknown))
	}
	if sv.Stats.Errors > 0 {
		res.Inconclusive = append(res.Inconclusive, fmt.Sprintf("%d solver errors", sv.Stats.Errors))
	}
	return
}

// normPos strips line numbers: "pkg/x.go:12 (fn)" -> "fn".
func normPos(p string) string {
	if i := strings.LastIndex(p, "("); i >= 0 {
		if j := strings.Index(p[i:], ")"); j > 0 {
			return p[i+1 : i+j]
		}
	}
	return p
}

func (e *Engine) safeModel(st *State) (m Model) {
	defer func() {
		if r := recover(); r != nil {
			m = nil
		}
	}()
	return e.ensureModel(st)
}

func (e *Engine) sample(st *State) map[string]interface{} {
	m := e.safeModel(st)
	out := map[string]interface{}{}
	if m == nil {
		return out
	}
	in := map[string]interface{}{}
	for _, r := range st.inputs {
		cv := e.ts.Eval(r.T, m)
		switch cv.S.K {
		case SBool:
			in[r.Name] = cv.B
		case SBV:
			if r.Unsigned {
				in[r.Name] = cv.BV
			} else {
				in[r.Name] = signed(cv.BV, cv.S.W)
			}
		default:
			in[r.Name] = cv.Str
		}
	}
	out["harness"] = e.job.Func
	out["args"] = e.job.Args
	out["witness_inputs"] = in
	out["tags"] = append([]string(nil), st.tags...)
	out["path_condition_conjuncts"] = len(st.pc)
	out["branch_decisions"] = st.branches
	var evs []string
	for i, ev := range st.events {
		if i >= 12 {
			break
		}
		s := ev.Kind
		for _, a := range ev.Args {
			s += " " + e.showVal(a)
		}
		evs = append(evs, s)
	}
	if len(evs) > 0 {
		out["events"] = evs
	}
	return out
}

// ---- property-level driver ----

type KnownFinding struct {
	Property  string `json:"property"`
	Signature string `json:"signature"`
	What      string `json:"what"`
	Status    string `json:"status"` // open | fixed
	Commit    string `json:"commit,omitempty"`
}

type CheckResult struct {
	Prop     string
	Tier     string
	Jobs     []*JobResult
	Wall     time.Duration
	LoadTime time.Duration
}

func runCheck(w *World, spec *PropSpec, tier string, workers int, solverKind string) *CheckResult {
	start := time.Now()
	jobs := spec.Jobs(tier)
	budget := 40 * time.Minute
	if tier == "thorough" {
		budget = 6 * time.Hour
	}
	cr := &CheckResult{Prop: spec.ID, Tier: tier, LoadTime: w.loadTime}
	results := make([]*JobResult, len(jobs))
	var wg sync.WaitGroup
	sem := make(chan struct{}, workers)
	for i := range jobs {
		wg.Add(1)
		go func(i int) {
			defer wg.Done()
			sem <- struct{}{}
			defer func() { <-sem }()
			j := jobs[i]
			j.Prop = spec.ID
			if j.MaxSteps == 0 {
				j.MaxSteps = 2000000
			}
			if j.MaxLen == 0 {
				j.MaxLen = 64
			}
			if j.Unwind == 0 {
				j.Unwind = 300
			}
			if j.Timeout == 0 {
				j.Timeout = 10 * time.Minute
			}
			if tier != "thorough" && j.Timeout > 12*time.Minute {
				j.Timeout = 12 * time.Minute // quick tier: no job runs longer than this on the unchanged tree
			}
			if time.Since(start) > budget {
				r := newJobResult(j)
				r.Inconclusive = append(r.Inconclusive, "not run: the check's time budget was exhausted by earlier jobs")
				results[i] = r
				return
			}
			results[i] = runJob(w, j, solverKind)
		}(i)
	}
	wg.Wait()
	cr.Jobs = results
	cr.Wall = time.Since(start)
	return cr
}

func loadKnown(verifDir string) []KnownFinding {
	var k []KnownFinding
	data, err := os.ReadFile(filepath.Join(verifDir, "known_findings.json"))
	if err != nil {
		return nil
	}
	json.Unmarshal(data, &k)
	return k
}

// replayViolation runs the native replay test of the property with the
// counterexample as scenario; returns (reproduced, artefact path, output).
func replayViolation(w *World, verifDir string, spec *PropSpec, v *Violation) (bool, string, string) {
	sc, _ := json.MarshalIndent(map[string]interface{}{"property": spec.ID, "harness": v.Func, "args": v.Args, "label": v.Label, "kind": v.Kind, "inputs": v.Inputs, "tags": v.Tags, "msg": v.Msg}, "", " ")
	sum := sha256.Sum256(sc)
	dir := filepath.Join(verifDir, "replays", spec.ID, fmt.Sprintf("%x", sum[:6]))
	os.MkdirAll(dir, 0o755)
	scPath := filepath.Join(dir, "scenario.json")
	os.WriteFile(scPath, sc, 0o644)
	rp := spec.Replay[v.Func]
	if rp == nil {
		rp = spec.Replay["*"]
	}
	if rp == nil {
		return false, scPath, "no replay test registered for " + v.Func
	}
	ok, out := runReplay(w.repo, verifDir, rp, scPath)
	os.WriteFile(filepath.Join(dir, "replay.log"), []byte(out), 0o644)
	cmd := fmt.Sprintf("#!/bin/sh\n# replays the counterexample against the real code in %s\ncd %s/engine && ./gosym replay %s %s\n", w.repo, verifDir, spec.ID, scPath)
	os.WriteFile(filepath.Join(dir, "replay.sh"), []byte(cmd), 0o755)
	return ok, scPath, out
}

type ReplaySpec struct {
	PkgDir string // e.g. pkg/scheduler
	File   string // file under /verif/replay/
	Test   string // test function
}

func runReplay(repo, verifDir string, rp *ReplaySpec, scenarioPath string) (bool, string) {
	src := filepath.Join(verifDir, "replay", rp.File)
	ov := map[string]map[string]string{"Replace": {filepath.Join(repo, rp.PkgDir, "zz_replay_test.go"): src}}
	common := filepath.Join(verifDir, "replay", "common_replay.go.txt")
	_ = common
	tmp, err := os.MkdirTemp("", "gosym-replay")
	if err != nil {
		return false, err.Error()
	}
	defer os.RemoveAll(tmp)
	ovPath := filepath.Join(tmp, "overlay.json")
	data, _ := json.Marshal(ov)
	os.WriteFile(ovPath, data, 0o644)
	cmd := exec.Command("timeout", "300", "go", "test", "-vet=off", "-count=1", "-run", "^"+rp.Test+"$", "-v", "-overlay", ovPath, "./"+rp.PkgDir)
	cmd.Dir = repo
	cmd.Env = append(os.Environ(), "GOFLAGS=-mod=mod", "GOPROXY=off", "GOSUMDB=off", "GOTOOLCHAIN=local", "VERIF_SCENARIO="+scenarioPath)
	out, _ := cmd.CombinedOutput()
	s := string(out)
	if strings.Contains(s, "[build failed]") || strings.Contains(s, "[setup failed]") {
		s = "REPLAY-TEST-DOES-NOT-BUILD (the replay harness itself is broken or no longer fits the tree)\n" + s
	}
	if i := strings.Index(s, "REPLAY-CRASH-MEANS-REPRODUCED"); i >= 0 {
		rest := s[i:]
		if strings.Contains(rest, "panic: ") || strings.Contains(rest, "fatal error: ") {
			return true, s
		}
	}
	return strings.Contains(s, "REPLAY: reproduced"), s
}

// finish aggregates, replays, matches known findings, writes evidence, prints verdict lines; returns the exit code.
func finish(w *World, verifDir string, spec *PropSpec, cr *CheckResult, seed int64) int {
	known := loadKnown(verifDir)
	agg := newJobResult(nil)
	var inconclusive []string
	var viols []*Violation
	otherProps := map[string]int{}
	perJob := []map[string]interface{}{}
	var solver SolverStats
	for _, jr := range cr.Jobs {
		agg.Paths += jr.Paths
		agg.Forks += jr.Forks
		agg.Branches += jr.Branches
		agg.Obligations += jr.Obligations
		agg.Discharged += jr.Discharged
		agg.Unknown += jr.Unknown
		agg.AssumePruned += jr.AssumePruned
		agg.Steps += jr.Steps
		agg.CrossChecked += jr.CrossChecked
		agg.CrossDisagree += jr.CrossDisagree
		agg.CrossUnknown += jr.CrossUnknown
		for k, v := range jr.Ends {
			agg.Ends[k] += v
		}
		for k, v := range jr.Covers {
			agg.Covers[k] += v
		}
		for k, v := range jr.Asserts {
			a := agg.Asserts[k]
			a[0] += v[0]
			a[1] += v[1]
			agg.Asserts[k] = a
		}
		for k, v := range jr.Funcs {
			agg.Funcs[k] = v
		}
		for k, v := range jr.Stubs {
			agg.Stubs[k] += v
		}
		for k, v := range jr.Intrinsics {
			agg.Intrinsics[k] += v
		}
		for k, v := range jr.Transparent {
			agg.Transparent[k] += v
		}
		for _, s := range jr.Inconclusive {
			inconclusive = append(inconclusive, jr.Job.Func+fmt.Sprint(jr.Job.Args)+": "+s)
		}
		for i := range jr.Violations {
			// an assertion labelled with another property's id belongs to that property's check
			if l := jr.Violations[i].Label; len(l) > 4 && l[0] == 'C' && l[3] == '.' && l[:3] != spec.ID {
				otherProps[l[:3]]++
				if !spec.AttributeByReplay {
					continue
				}
				// harness family with a per-property native oracle: the counterexample counts for
				// this property iff its native replay shows THIS property's oracle failing
				jr.Violations[i].Foreign = true
			}
			viols = append(viols, &jr.Violations[i])
		}
		if len(agg.Samples) < 6 {
			agg.Samples = append(agg.Samples, jr.Samples...)
		}
		solver.Sat += jr.Solver.Sat
		solver.Unsat += jr.Solver.Unsat
		solver.Unknown += jr.Solver.Unknown
		solver.Errors += jr.Solver.Errors
		solver.Time += jr.Solver.Time
		solver.CacheHits += jr.Solver.CacheHits
		solver.ModelReuse += jr.Solver.ModelReuse
		if jr.Solver.MaxQuery > solver.MaxQuery {
			solver.MaxQuery = jr.Solver.MaxQuery
		}
		perJob = append(perJob, map[string]interface{}{"harness": jr.Job.Func, "args": jr.Job.Args, "paths": jr.Paths, "ends": jr.Ends, "obligations": jr.Obligations,
			"discharged": jr.Discharged, "wall_s": jr.Wall.Seconds(), "solver_s": jr.Solver.Time.Seconds(), "queries": jr.Solver.Sat + jr.Solver.Unsat + jr.Solver.Unknown})
	}
	// vacuity: required cover goals
	for _, c := range spec.Covers {
		if agg.Covers[c] == 0 {
			inconclusive = append(inconclusive, "cover goal never reached (vacuous harness?): "+c)
		}
	}
	// group violations by signature; replay one witness per signature (up to 2 tries)
	bySig := map[string][]*Violation{}
	var sigs []string
	for _, v := range viols {
		if _, ok := bySig[v.Signature]; !ok {
			sigs = append(sigs, v.Signature)
		}
		bySig[v.Signature] = append(bySig[v.Signature], v)
	}
	sort.Strings(sigs)
	exit := 0
	nViol := 0
	replayed := 0
	var lines []string
	for _, sig := range sigs {
		vs := bySig[sig]
		isKnown := false
		what := ""
		for _, k := range known {
			if k.Property == spec.ID && k.Status == "open" && k.Signature == sig {
				isKnown = true
				what = k.What
			}
		}
		repro := false
		foreignOnly := false
		var path, out string
		// witnesses of one signature differ (3 per job are kept): a few of them may be
		// unreplayable natively for incidental reasons, so up to 6 are tried
		for i, v := range vs {
			if i >= spec.maxWitnesses() {
				break
			}
			ok, p, o := replayViolation(w, verifDir, spec, v)
			replayed++
			path, out = p, o
			if ok && v.Foreign {
				ok = false
				for _, ln := range strings.Split(o, "\n") {
					if strings.Contains(ln, "REPLAY: reproduced") && strings.Contains(ln, spec.ID+":") {
						ok = true
					}
				}
				if !ok {
					foreignOnly = true
				}
			}
			b := ok
			v.Reproduced = &b
			v.Replay = p
			if ok {
				repro = true
				break
			}
		}
		for _, v := range vs {
			v.Known = isKnown
		}
		switch {
		case repro && isKnown:
			lines = append(lines, fmt.Sprintf("KNOWN-FINDING: property=%s %s [%s] replay=%s", spec.ID, what, sig, path))
		case repro:
			lines = append(lines, fmt.Sprintf("VIOLATION property=%s replay=%s", spec.ID, path))
			lines = append(lines, fmt.Sprintf("  signature: %s\n  %s", sig, vs[0].Msg))
			nViol++
			exit = 1
		case foreignOnly || vs[0].Foreign:
			// another property's obligation; its own check reports it
		default:
			tail := out
			if len(tail) > 600 {
				tail = tail[len(tail)-600:]
			}
			inconclusive = append(inconclusive, fmt.Sprintf("counterexample for %s did not reproduce against the real code (encoding/stub/oracle problem, not a finding): %s\n%s", sig, path, tail))
		}
	}
	// witness replay: a sample of PASSING paths is concretised (the solver's model of the path
	// condition) and run natively through the same replay test; the real code must satisfy the
	// native oracle on it. This validates the translator and the stubs against the implementation.
	validated, witnessTried := 0, 0
	var witnessNotes []string
	if spec.WitnessReplay > 0 && exit == 0 {
		var pool []map[string]interface{}
		for _, jr := range cr.Jobs {
			for _, sm := range jr.Samples {
				if _, ok := sm["witness_inputs"]; ok {
					pool = append(pool, sm)
				}
			}
		}
		rng := rand.New(rand.NewSource(seed + 1))
		rng.Shuffle(len(pool), func(i, j int) { pool[i], pool[j] = pool[j], pool[i] })
		byHarness := map[string]int{}
		harnesses := map[string]bool{}
		for _, sm := range pool {
			h, _ := sm["harness"].(string)
			harnesses[h] = true
		}
		want := spec.WitnessReplay
		if cr.Tier == "thorough" {
			want *= 3
		}
		perHarness := (want + len(harnesses) - 1) / max(len(harnesses), 1)
		for _, sm := range pool {
			if witnessTried >= want {
				break
			}
			h, _ := sm["harness"].(string)
			if byHarness[h] >= perHarness {
				continue
			}
			byHarness[h]++
			v := &Violation{Kind: "witness", Label: "witness-of-a-passing-path", Func: h, Inputs: sm["witness_inputs"].(map[string]interface{})}
			if a, ok := sm["args"].([]int64); ok {
				v.Args = a
			}
			os.Setenv("VERIF_WITNESS", "1")
			ok, p, out := replayViolation(w, verifDir, spec, v)
			os.Unsetenv("VERIF_WITNESS")
			witnessTried++
			replayed++
			switch {
			case ok:
				witnessNotes = append(witnessNotes, "DISAGREEMENT: the witness of a path on which every obligation was discharged fails the native oracle: "+p)
				inconclusive = append(inconclusive, "witness replay disagreement (translator / stub / oracle mismatch, not a finding): "+p)
			case strings.Contains(out, "not-replayable") || strings.Contains(out, "no replay test"):
				witnessNotes = append(witnessNotes, "not replayable natively: "+p)
			case strings.Contains(out, "REPLAY: not-reproduced"):
				validated++
			default:
				witnessNotes = append(witnessNotes, "replay did not report a verdict: "+p)
			}
		}
	}
	if exit == 0 && len(inconclusive) > 0 {
		exit = 2
	}
	// evidence
	funcs := []string{}
	for k, v := range agg.Funcs {
		if strings.Contains(k, "Verif") || strings.Contains(k, ".verif") || strings.Contains(k, "/verifrt") {
			continue
		}
		funcs = append(funcs, k+" @ "+v)
	}
	sort.Strings(funcs)
	asserts := map[string]interface{}{}
	for k, v := range agg.Asserts {
		asserts[k] = map[string]int{"discharged": v[0], "failed": v[1]}
	}
	var vout []Violation
	for _, v := range viols {
		vout = append(vout, *v)
	}
	if len(agg.Samples) == 0 {
		agg.Samples = append(agg.Samples, map[string]interface{}{"note": "no completed path"})
	}
	samples := make([]interface{}, 0, len(agg.Samples)+len(vout))
	for _, s := range agg.Samples {
		samples = append(samples, s)
	}
	for i, v := range vout {
		if i < 6 {
			samples = append(samples, map[string]interface{}{"counterexample": v})
		}
	}
	ev := map[string]interface{}{
		"property_id": spec.ID,
		"tier":        cr.Tier,
		"seed":        seed,
		"level":       "model_checking",
		"wall_s":      cr.Wall.Seconds() + cr.LoadTime.Seconds(),
		"violations":  nViol,
		"coverage": map[string]interface{}{
			"states":                        max(agg.Paths, 1),
			"transitions":                   max(agg.Branches+agg.Forks, 1),
			"traces_validated_against_impl": validated,
			"witness_replays":               map[string]interface{}{"tried": witnessTried, "validated": validated, "notes": witnessNotes, "explanation": "models of passing symbolic paths run natively through the property's replay test (real executor, shell, loader, scheduler); counterexample replays are counted separately"},
			"counterexample_replays":        replayed - witnessTried,
			"samples":                       samples,
			"exhaustive":                    len(inconclusive) == 0,
			"explanation":                   "bounded symbolic execution of the real SSA of /repo; states = completed symbolic paths, transitions = branch/scheduling decisions; every assertion on every path is an SMT query (unsat = holds for all inputs within the bounds)",
			"paths_by_outcome":              agg.Ends,
			"obligations":                   agg.Obligations,
			"discharged":                    agg.Discharged,
			"assertions":                    asserts,
			"cover_goals":                   agg.Covers,
			"required_cover_goals":          spec.Covers,
			"functions_encoded":             funcs,
			"library_transparent":           sortedKeys(agg.Transparent),
			"intrinsics":                    sortedKeys(agg.Intrinsics),
			"stubs":                         sortedKeys(agg.Stubs),
			"bounds":                        spec.Bounds[cr.Tier],
			"outside_claim":                 spec.Outside,
			"queries":                       map[string]int{"sat": solver.Sat, "unsat": solver.Unsat, "unknown": solver.Unknown, "error": solver.Errors, "cache_hits": solver.CacheHits, "witness_model_reuse": solver.ModelReuse},
			"solver_time_s":                 solver.Time.Seconds(),
			"cross_solver":                  map[string]interface{}{"solver": crossSolver, "verdict_queries_rechecked": agg.CrossChecked, "disagreements": agg.CrossDisagree, "unknown_in_cross_solver": agg.CrossUnknown},
			"solver_max_query_s":            solver.MaxQuery.Seconds(),
			"solver":                        spec.solverDesc,
			"interpreter_steps":             agg.Steps,
			"assume_pruned_paths":           agg.AssumePruned,
			"jobs":                          perJob,
			"inconclusive":                  inconclusive,
			"counterexamples":               vout,
			"load_and_ssa_build_s":          cr.LoadTime.Seconds(),
			"harness_files":                 w.harness,
			"failed_assertions_of_other_properties_ignored_here": otherProps,
		},
		"assumptions": spec.Assumptions,
	}
	// evidence/ only ever describes runs against /repo itself; runs against a scratch copy
	// (seeded changes, mutants) write to evidence-scratch/ (not committed)
	evDir := "evidence"
	if filepath.Clean(w.repo) != "/repo" {
		evDir = "evidence-scratch"
	}
	os.MkdirAll(filepath.Join(verifDir, evDir), 0o755)
	data, _ := json.MarshalIndent(ev, "", " ")
	os.WriteFile(filepath.Join(verifDir, evDir, spec.ID+".json"), data, 0o644)
	for _, l := range lines {
		fmt.Println(l)
	}
	for _, s := range inconclusive {
		fmt.Printf("INCONCLUSIVE property=%s reason=%s\n", spec.ID, s)
	}
	fmt.Printf("%s %s: paths=%d obligations=%d discharged=%d violations=%d known=%d queries(sat/unsat/unk)=%d/%d/%d solver=%.1fs wall=%.1fs exit=%d\n",
		spec.ID, cr.Tier, agg.Paths, agg.Obligations, agg.Discharged, nViol, len(lines)-2*nViol, solver.Sat, solver.Unsat, solver.Unknown, solver.Time.Seconds(), cr.Wall.Seconds()+cr.LoadTime.Seconds(), exit)
	return exit
}

var jobSeed int64

func sumArgs(a []int64) int64 {
	var s int64
	for i, x := range a {
		s += x * int64(i+3)
	}
	return s
}

var crossSolver string
