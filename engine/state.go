package main

import (
	"fmt"
	"go/types"

	"golang.org/x/tools/go/ssa"
)

// ---- heap ----

type ObjKind uint8

const (
	KCells ObjKind = iota
	KMap
	KChan
)

type MapEntry struct {
	K    *Term
	V    Value
	Live *Term
}

type Object struct {
	ID    int
	Kind  ObjKind
	Cells []Value
	Type  types.Type // element/struct type for cells (informational), map type, chan type
	// map
	Entries []MapEntry
	// chan
	Buf    []Value
	Cap    int
	Closed bool
	Label  string
}

func (o *Object) clone() *Object {
	n := *o
	n.Cells = append([]Value(nil), o.Cells...)
	n.Entries = append([]MapEntry(nil), o.Entries...)
	n.Buf = append([]Value(nil), o.Buf...)
	return &n
}

// ---- frames / threads ----

type DeferRec struct {
	Fn   FuncV
	Args []Value
	// intrinsic deferred call (e.g. defer mu.Unlock())
	Callee *ssa.Function
	Invoke *types.Func
	Recv   Value
	Go     func(e *Engine, st *State)
}

type Frame struct {
	Fn      *ssa.Function
	Info    *FnInfo
	Block   *ssa.BasicBlock
	Prev    *ssa.BasicBlock
	IP      int
	Regs    []Value
	Defers  []DeferRec
	RetReg  ssa.Value                        // register of the caller's call instruction (nil = discard)
	OnRet   func(e *Engine, st *State, res Value) // engine continuation (clone-safe)
	IsDefer bool                             // frame was started by RunDefers/unwinding of the frame below
	Recovered bool
	RunningDefers bool
	Visits  map[*ssa.BasicBlock]int
	Yielded bool
	RetStay bool
	Phase   int
	HookDone bool
	CallDone bool // a call issued by this instruction has returned (for multi-phase intrinsics)
	Scratch Value // result of the callback issued by this instruction
}

func (f *Frame) clone() *Frame {
	n := *f
	n.Regs = append([]Value(nil), f.Regs...)
	n.Defers = append([]DeferRec(nil), f.Defers...)
	if f.Visits != nil {
		n.Visits = make(map[*ssa.BasicBlock]int, len(f.Visits))
		for k, v := range f.Visits {
			n.Visits[k] = v
		}
	}
	return &n
}

type PanicInfo struct {
	Msg  string
	Val  Value
	Kind string // "nil-deref", "index", "explicit", "type-assert", "close-closed", "nil-map", "div-zero", ...
	Pos  string
}

type Thread struct {
	ID        int
	Frames    []*Frame
	Done      bool
	Panicking *PanicInfo
	WaitDesc  string
	Wait      func(e *Engine, st *State) bool // non-nil: blocked until it returns true (clone-safe)
	Name      string
	Result    Value
	Sleeping  bool
	SleepSnap int
	PassStart int
	CleanAt   int
}

func (t *Thread) clone() *Thread {
	n := *t
	n.Frames = make([]*Frame, len(t.Frames))
	for i, f := range t.Frames {
		n.Frames[i] = f.clone()
	}
	return &n
}

func (t *Thread) top() *Frame {
	if len(t.Frames) == 0 {
		return nil
	}
	return t.Frames[len(t.Frames)-1]
}

type Event struct {
	Kind string
	Args []Value
	Thr  int
}

type InputRec struct {
	Name     string
	Base     string
	T        *Term
	Unsigned bool
}

type State struct {
	pc       []*Term
	model    Model
	heap     map[int]*Object
	owned    map[int]bool
	nextObj  int
	threads  []*Thread
	cur      int
	globals  map[*ssa.Global]int
	redirect map[string]FuncV
	events   []Event
	inputs   []InputRec
	tags     []string
	notes    []string

	decisions []int
	decPos    int

	// hooks installed by the harness
	beforeAtomic *FuncV
	onGo         *FuncV
	inHook       int

	threadMode   bool
	preemptBound int
	preemptions  int
	progress     int
	steps        int
	unwind       int
	branches     int
	ghost        map[string]Value // harness-level named ghost values (verifrt.SetGhost/GetGhost)
	cmdTable     map[string]Value
	initDone     map[*ssa.Package]bool
	strIntern    map[string]int
}

func (st *State) clone() *State {
	n := *st
	n.pc = append([]*Term(nil), st.pc...)
	n.heap = make(map[int]*Object, len(st.heap))
	for k, v := range st.heap {
		n.heap[k] = v
	}
	n.owned = map[int]bool{}
	st.owned = map[int]bool{}
	n.threads = make([]*Thread, len(st.threads))
	for i, t := range st.threads {
		n.threads[i] = t.clone()
	}
	n.globals = make(map[*ssa.Global]int, len(st.globals))
	for k, v := range st.globals {
		n.globals[k] = v
	}
	n.redirect = make(map[string]FuncV, len(st.redirect))
	for k, v := range st.redirect {
		n.redirect[k] = v
	}
	n.events = append([]Event(nil), st.events...)
	n.inputs = append([]InputRec(nil), st.inputs...)
	n.tags = append([]string(nil), st.tags...)
	n.notes = append([]string(nil), st.notes...)
	n.decisions = append([]int(nil), st.decisions...)
	n.ghost = make(map[string]Value, len(st.ghost))
	for k, v := range st.ghost {
		n.ghost[k] = v
	}
	n.cmdTable = make(map[string]Value, len(st.cmdTable))
	for k, v := range st.cmdTable {
		n.cmdTable[k] = v
	}
	n.initDone = make(map[*ssa.Package]bool, len(st.initDone))
	for k, v := range st.initDone {
		n.initDone[k] = v
	}
	if st.model != nil {
		n.model = st.model // models are immutable once attached
	}
	return &n
}

// ---- object access ----

func (st *State) newObj(kind ObjKind, ncells int, t types.Type) *Object {
	st.nextObj++
	o := &Object{ID: st.nextObj, Kind: kind, Type: t}
	if ncells > 0 {
		o.Cells = make([]Value, ncells)
	}
	st.heap[o.ID] = o
	st.owned[o.ID] = true
	return o
}

func (st *State) obj(id int) *Object {
	o := st.heap[id]
	if o == nil {
		panic(fmt.Sprintf("dangling object o%d", id))
	}
	return o
}

// wobj returns a writable copy of the object.
func (st *State) wobj(id int) *Object {
	o := st.obj(id)
	if st.owned[id] {
		return o
	}
	n := o.clone()
	st.heap[id] = n
	st.owned[id] = true
	return n
}

func (st *State) thread() *Thread { return st.threads[st.cur] }
func (st *State) frame() *Frame   { return st.threads[st.cur].top() }

// ---- control signals (Go panics caught by the path loop) ----

type forkSignal struct{}
type reschedSignal struct{}
type pathEnd struct {
	kind string // "stop", "infeasible", "unmodelled", "unwind", "abort", "panic", "deadlock", "done", "limit"
	msg  string
}

// FnInfo caches register numbering for a function.
type FnInfo struct {
	Index map[ssa.Value]int
	N     int
}

func (e *Engine) fnInfo(fn *ssa.Function) *FnInfo {
	if fi, ok := e.fnInfos[fn]; ok {
		return fi
	}
	fi := &FnInfo{Index: map[ssa.Value]int{}}
	add := func(v ssa.Value) {
		fi.Index[v] = fi.N
		fi.N++
	}
	for _, p := range fn.Params {
		add(p)
	}
	for _, fv := range fn.FreeVars {
		add(fv)
	}
	for _, b := range fn.Blocks {
		for _, in := range b.Instrs {
			if v, ok := in.(ssa.Value); ok {
				add(v)
			}
		}
	}
	e.fnInfos[fn] = fi
	return fi
}
