package main

// The harness vocabulary: calls into package internal/verifrt are intercepted here.

import (
	"fmt"
	"go/types"
	"strings"
)

// verifrtSource is injected (overlay) as /repo/internal/verifrt/rt.go. The
// bodies are never executed by the engine; natively they make the package compile.
const verifrtSource = `//go:build verif

// Package verifrt is the vocabulary of the symbolic harnesses (overlay only; not part of taskctl).
package verifrt

func Bool(name string) bool                     { panic("symbolic only") }
func Int(name string) int                       { panic("symbolic only") }
func Int32(name string) int32                   { panic("symbolic only") }
func Int64(name string) int64                   { panic("symbolic only") }
func Uint8(name string) uint8                   { panic("symbolic only") }
func Uint32(name string) uint32                 { panic("symbolic only") }
func Str(name string, maxLen int) string        { panic("symbolic only") }
func StrN(name string, n int) string            { panic("symbolic only") }
func OneOf(name string, opts ...string) string  { panic("symbolic only") }
func Choice(name string, n int) int             { panic("symbolic only") }
func Assume(c bool)                             { panic("symbolic only") }
func Assert(c bool, label string)               { panic("symbolic only") }
func Cover(label string)                        { panic("symbolic only") }
func Reached(label string)                      { panic("symbolic only") }
func Event(kind string, args ...interface{})    { panic("symbolic only") }
func Observe(name string, v interface{})        { panic("symbolic only") }
func Redirect(target string, f interface{})     { panic("symbolic only") }
func BeforeAtomic(f func())                     { panic("symbolic only") }
func OnGo(f func(run func()))                   { panic("symbolic only") }
func Stop()                                     { panic("symbolic only") }
func Tag(s string)                              { panic("symbolic only") }
func Unwind(n int)                              { panic("symbolic only") }
func ThreadMode(preemptBound int)               { panic("symbolic only") }
func Concrete(x int) int                        { panic("symbolic only") }
func ConcreteStr(s string) string               { panic("symbolic only") }
func IsConcrete(x interface{}) bool             { panic("symbolic only") }
func Yield()                                    { panic("symbolic only") }
func Spawn(name string, f func())               { panic("symbolic only") }
func ThreadDone(name string) bool               { panic("symbolic only") }
func WaitThreads()                              { panic("symbolic only") }
func ThreadID() int                             { panic("symbolic only") }
func ExpectPanic(label string)                  { panic("symbolic only") }
func Ite(c bool, a, b int) int                  { panic("symbolic only") }
func Ite64(c bool, a, b int64) int64            { panic("symbolic only") }
func IteStr(c bool, a, b string) string         { panic("symbolic only") }
func Implies(a, b bool) bool                    { panic("symbolic only") }
func And(a, b bool, more ...bool) bool          { panic("symbolic only") }
func Or(a, b bool, more ...bool) bool           { panic("symbolic only") }
func Not(a bool) bool                           { panic("symbolic only") }
func Arg(i int) int                             { panic("symbolic only") }
func Note(s string)                             { panic("symbolic only") }
func ExpectAbortIf(input string, label string)  { panic("symbolic only") }
func ErrorNew(msg string) error                 { panic("symbolic only") }
func CtxCancelled(ctx interface{}) bool         { panic("symbolic only") }
func CtxDeadline(ctx interface{}) (int64, bool) { panic("symbolic only") }
func Now() int64                                { panic("symbolic only") }
func SameMap(a, b map[string]interface{}) bool  { panic("symbolic only") }
func SymbolicTime()                             { panic("symbolic only") }
func AdvanceTo(t int64)                         { panic("symbolic only") }
func BufString(buf interface{}) string          { panic("symbolic only") }
func Digest(p interface{}) string               { panic("symbolic only") }
func Opaque(name string) string                 { panic("symbolic only") }
`

func (c *CallCtx) strArg(i int) string {
	t, ok := c.args[i].(*Term)
	if !ok || !t.IsConst() {
		panic(pathEnd{kind: "unmodelled", msg: fmt.Sprintf("verifrt.%s: argument %d must be a constant string at %s", c.fn.Name(), i, c.e.pos(c.e.curInstr))})
	}
	return t.Str
}

func (c *CallCtx) intArg(i int) int {
	t, ok := c.args[i].(*Term)
	if !ok || !t.IsConst() {
		panic(pathEnd{kind: "unmodelled", msg: fmt.Sprintf("verifrt.%s: argument %d must be a constant int at %s", c.fn.Name(), i, c.e.pos(c.e.curInstr))})
	}
	return int(signed(t.BV, t.S.W))
}

// input creates a named symbolic input; a name used twice on one path gets a #n suffix
// (counted per path, so names are stable across paths and re-executions).
func (e *Engine) input(st *State, name string, s Sort) *Term {
	n := 0
	for _, in := range st.inputs {
		if in.Base == name {
			n++
		}
	}
	full := name
	if n > 0 {
		full = fmt.Sprintf("%s#%d", name, n)
	}
	v := e.ts.Var(full, s)
	st.inputs = append(st.inputs, InputRec{Name: full, Base: name, T: v})
	return v
}

func (e *Engine) rtCall(c *CallCtx) (Value, bool) {
	e, st, ts := c.e, c.st, c.e.ts
	switch c.fn.Name() {
	case "Bool":
		return e.input(st, c.strArg(0), BoolSort), true
	case "Int", "Int64":
		return e.input(st, c.strArg(0), BVSort(64)), true
	case "Int32", "Uint32":
		return e.input(st, c.strArg(0), BVSort(32)), true
	case "Uint8":
		v := e.input(st, c.strArg(0), BVSort(8))
		st.inputs[len(st.inputs)-1].Unsigned = true
		return v, true
	case "Str":
		v := e.input(st, c.strArg(0), StringSort)
		n := c.intArg(1)
		e.addPC(st, ts.BvCmp(OBvUle, ts.StrLen(v), ts.Int(int64(n))))
		st.model = nil
		e.ensureModel(st)
		return v, true
	case "StrN":
		// a string of exactly n symbolic printable-ASCII bytes (0x21..0x7e), kept as a unit sequence
		n := c.intArg(1)
		parts := make([]*Term, n)
		for i := 0; i < n; i++ {
			b := e.input(st, fmt.Sprintf("%s[%d]", c.strArg(0), i), BVSort(8))
			st.inputs[len(st.inputs)-1].Unsigned = true
			e.assume(st, ts.And(ts.BvCmp(OBvUle, ts.BV(0x21, 8), b), ts.BvCmp(OBvUle, b, ts.BV(0x7e, 8))))
			parts[i] = ts.StrFromCode(ts.Zext(b, 64))
		}
		v := ts.StrConcat(parts...)
		st.inputs = append(st.inputs, InputRec{Name: c.strArg(0), Base: c.strArg(0), T: v})
		return v, true
	case "Opaque":
		return ts.Fresh("opaque:"+c.strArg(0), StringSort), true
	case "Choice":
		n := c.intArg(1)
		v := e.input(st, c.strArg(0), BVSort(64))
		e.addPC(st, ts.BvCmp(OBvUlt, v, ts.Int(int64(n))))
		e.ensureModel(st)
		return v, true
	case "OneOf":
		opts := c.args[1].(SliceV)
		n := int(opts.Len.BV)
		if n == 0 {
			return ts.StrC(""), true
		}
		idx := ts.Fresh(c.strArg(0)+".idx", BVSort(64))
		e.addPC(st, ts.BvCmp(OBvUlt, idx, ts.Int(int64(n))))
		e.ensureModel(st)
		res := e.load(st, e.ptrAdd(opts.P, n-1), types.Typ[types.String]).(*Term)
		for i := n - 2; i >= 0; i-- {
			res = ts.Ite(ts.Eq(idx, ts.Int(int64(i))), e.load(st, e.ptrAdd(opts.P, i), types.Typ[types.String]).(*Term), res)
		}
		st.inputs = append(st.inputs, InputRec{Name: c.strArg(0), T: res})
		return res, true
	case "Assume":
		cond := c.args[0].(*Term)
		if cond.IsTrue() {
			return nil, true
		}
		ok, m := e.feasible(st, cond)
		if !ok {
			e.res.AssumePruned++
			panic(pathEnd{kind: "infeasible"})
		}
		e.addPC(st, cond)
		st.model = m
		return nil, true
	case "Assert":
		e.doAssert(st, c.args[0].(*Term), c.strArg(1))
		return nil, true
	case "Cover", "Reached":
		e.res.cover(c.strArg(0))
		return nil, true
	case "Event":
		sl := c.args[1].(SliceV)
		n := int(sl.Len.BV)
		ev := Event{Kind: c.strArg(0), Thr: st.cur}
		for i := 0; i < n; i++ {
			ev.Args = append(ev.Args, e.load(st, e.ptrAdd(sl.P, i), types.NewInterfaceType(nil, nil)))
		}
		st.events = append(st.events, ev)
		return nil, true
	case "Observe":
		iv := c.args[1].(IfaceV)
		if len(iv.Alts) == 1 && iv.Alts[0].T != nil {
			if t, ok := iv.Alts[0].V.(*Term); ok {
				st.inputs = append(st.inputs, InputRec{Name: c.strArg(0), T: t})
			}
		}
		return nil, true
	case "Redirect":
		iv := c.args[1].(IfaceV)
		name := c.strArg(0)
		if len(iv.Alts) == 1 && iv.Alts[0].T == nil {
			delete(st.redirect, name) // Redirect(name, nil) restores the real function
			return nil, true
		}
		if len(iv.Alts) != 1 {
			panic(pathEnd{kind: "unmodelled", msg: "Redirect: bad func"})
		}
		if !e.w.knownFunc(name) {
			panic(pathEnd{kind: "harness", msg: "Redirect target not found in program: " + name})
		}
		st.redirect[name] = iv.Alts[0].V.(FuncV)
		return nil, true
	case "BeforeAtomic":
		f := c.args[0].(FuncV)
		if len(f.Alts) == 1 && f.Alts[0].Fn == nil {
			st.beforeAtomic = nil
		} else {
			st.beforeAtomic = &f
		}
		return nil, true
	case "OnGo":
		f := c.args[0].(FuncV)
		if len(f.Alts) == 1 && f.Alts[0].Fn == nil {
			st.onGo = nil
		} else {
			st.onGo = &f
		}
		return nil, true
	case "Stop":
		panic(pathEnd{kind: "stop"})
	case "Tag":
		st.tags = append(st.tags, c.strArg(0))
		return nil, true
	case "Unwind":
		st.unwind = c.intArg(0)
		return nil, true
	case "ThreadMode":
		st.threadMode = true
		st.preemptBound = c.intArg(0)
		return nil, true
	case "Concrete":
		t := c.args[0].(*Term)
		if t.IsConst() {
			return t, true
		}
		// fork over values by repeatedly asking the witness model
		v := ts.Eval(t, e.ensureModel(st))
		cv := ts.BV(v.BV, t.S.W)
		if e.branch(st, ts.Eq(t, cv)) {
			return cv, true
		}
		// other side: re-execute (the new witness model differs)
		return e.rtCall(c)
	case "ConcreteStr":
		t := c.args[0].(*Term)
		if t.IsConst() {
			return t, true
		}
		v := ts.Eval(t, e.ensureModel(st))
		cv := ts.StrC(v.Str)
		if e.branch(st, ts.Eq(t, cv)) {
			return cv, true
		}
		return e.rtCall(c)
	case "IsConcrete":
		iv := c.args[0].(IfaceV)
		if len(iv.Alts) == 1 {
			if t, ok := iv.Alts[0].V.(*Term); ok {
				return ts.Bool(t.IsConst()), true
			}
		}
		return ts.F, true
	case "Yield":
		st.progress++
		e.yieldPoint(st, c.fr)
		return nil, true
	case "Spawn":
		f := c.args[1].(FuncV)
		a := f.Alts[0]
		nt := &Thread{ID: len(st.threads), Name: c.strArg(0)}
		st.threads = append(st.threads, nt)
		cur := st.cur
		st.cur = nt.ID
		e.pushFrame(st, a.Fn, nil, a.Binds)
		st.cur = cur
		st.threadMode = true
		return nil, true
	case "ThreadDone":
		name := c.strArg(0)
		for _, t := range st.threads {
			if t.Name == name {
				return ts.Bool(t.Done), true
			}
		}
		return ts.F, true
	case "WaitThreads":
		// block until every other thread is done (or permanently blocked: deadlock is reported)
		all := true
		for i, t := range st.threads {
			if i != st.cur && !t.Done {
				all = false
			}
		}
		if all {
			return nil, true
		}
		me := st.cur
		e.block(st, "WaitThreads", func(e *Engine, s *State) bool {
			for i, t := range s.threads {
				if i != me && !t.Done {
					return false
				}
			}
			return true
		})
		return nil, false
	case "ThreadID":
		return ts.Int(int64(st.cur)), true
	case "Ite", "Ite64":
		return ts.Ite(c.args[0].(*Term), c.args[1].(*Term), c.args[2].(*Term)), true
	case "IteStr":
		return ts.Ite(c.args[0].(*Term), c.args[1].(*Term), c.args[2].(*Term)), true
	case "Implies":
		return ts.Implies(c.args[0].(*Term), c.args[1].(*Term)), true
	case "And", "Or":
		ops := []*Term{c.args[0].(*Term), c.args[1].(*Term)}
		more := c.args[2].(SliceV)
		for i := 0; i < int(more.Len.BV); i++ {
			ops = append(ops, e.load(st, e.ptrAdd(more.P, i), types.Typ[types.Bool]).(*Term))
		}
		if c.fn.Name() == "And" {
			return ts.And(ops...), true
		}
		return ts.Or(ops...), true
	case "Not":
		return ts.Not(c.args[0].(*Term)), true
	case "Arg":
		i := c.intArg(0)
		if i < len(e.job.Args) {
			return ts.Int(e.job.Args[i]), true
		}
		return ts.Int(0), true
	case "ExpectAbortIf":
		// an abort (logrus.Fatal / os.Exit) is the expected outcome iff the named Bool input is true
		st.ghost["expectAbort"] = TupleV{e.ts.Var(c.strArg(0), BoolSort), e.ts.StrC(c.strArg(1))}
		return nil, true
	case "Note":
		st.notes = append(st.notes, c.strArg(0))
		return nil, true
	case "ErrorNew":
		return e.newError(st, c.args[0].(*Term), nil), true
	case "CtxCancelled":
		return e.ctxCancelled(st, c.args[0].(IfaceV)), true
	case "CtxDeadline":
		d, ok := e.ctxDeadline(st, c.args[0].(IfaceV))
		return TupleV{d, ok}, true
	case "Now":
		return e.now(st), true
	case "SameMap":
		return e.ptrEq(c.args[0].(Ptr), c.args[1].(Ptr)), true
	case "SymbolicTime":
		st.ghost["symtime"] = ts.T
		return nil, true
	case "AdvanceTo":
		// the clock has reached at least t
		t := c.args[0].(*Term)
		last, ok := st.ghost["now"].(*Term)
		if !ok {
			last = ts.Int(1)
		}
		st.ghost["now"] = ts.Ite(ts.BvCmp(OBvSlt, last, t), t, last)
		return nil, true
	case "Digest":
		// a textual digest of the object a pointer refers to: its cells and, one level down, the
		// length / closed flag of channels, the size of maps and slices it refers to. Two digests
		// of the same object are equal iff nothing of that changed in between.
		iv := c.args[0].(IfaceV)
		p, ok := iv.Alts[0].V.(Ptr)
		if !ok || len(iv.Alts) != 1 {
			panic(pathEnd{kind: "unmodelled", msg: "verifrt.Digest of a non-pointer"})
		}
		o, _, okc := p.concrete()
		if !okc || o == 0 {
			panic(pathEnd{kind: "unmodelled", msg: "verifrt.Digest of a symbolic or nil pointer"})
		}
		var sb strings.Builder
		for i, cell := range st.obj(o).Cells {
			fmt.Fprintf(&sb, "%d:%s;", i, e.digestValue(st, cell))
		}
		return ts.StrC(sb.String()), true
	case "BufString":
		iv := c.args[0].(IfaceV)
		p := iv.Alts[0].V.(Ptr)
		return e.bufGet(st, p), true
	}
	panic(pathEnd{kind: "unmodelled", msg: "verifrt." + c.fn.Name()})
}

func (e *Engine) digestValue(st *State, v Value) string {
	switch x := v.(type) {
	case nil:
		return "nil"
	case *Term:
		if x.IsConst() {
			return fmt.Sprintf("%d/%v/%q", x.BV, x.B, x.Str)
		}
		return fmt.Sprintf("term#%d", x.id)
	case Ptr:
		o, off, ok := x.concrete()
		if !ok {
			return "ptr?"
		}
		if o == 0 {
			return "nil"
		}
		ob := st.obj(o)
		switch ob.Kind {
		case KChan:
			return fmt.Sprintf("chan#%d(len=%d,closed=%v)", o, len(ob.Buf), ob.Closed)
		case KMap:
			return fmt.Sprintf("map#%d(entries=%d)", o, len(ob.Entries))
		}
		return fmt.Sprintf("ptr#%d+%d", o, off)
	case SliceV:
		return "slice(len=" + e.digestValue(st, x.Len) + ")"
	case StructV:
		s := "{"
		for _, f := range x.F {
			s += e.digestValue(st, f) + ","
		}
		return s + "}"
	case ArrayV:
		s := "["
		for _, f := range x.E {
			s += e.digestValue(st, f) + ","
		}
		return s + "]"
	case IfaceV:
		if len(x.Alts) == 1 && x.Alts[0].T == nil {
			return "iface(nil)"
		}
		if len(x.Alts) == 1 {
			return "iface(" + x.Alts[0].T.String() + ":" + e.digestValue(st, x.Alts[0].V) + ")"
		}
		return "iface?"
	case FuncV:
		return "func"
	}
	return fmt.Sprintf("%T", v)
}

// ensureModel makes sure st.model satisfies the path condition.
func (e *Engine) ensureModel(st *State) Model {
	if st.model != nil {
		ok := true
		for _, c := range st.pc {
			if !e.ts.EvalBool(c, st.model) {
				ok = false
				break
			}
		}
		if ok {
			return st.model
		}
	}
	r, m := e.solver.Check(st.pc, true)
	switch r {
	case Sat:
		st.model = m
		return m
	case Unsat:
		panic(pathEnd{kind: "infeasible"})
	}
	e.res.Unknown++
	e.res.note("solver unknown (ensureModel)")
	panic(pathEnd{kind: "infeasible"})
}

func (e *Engine) doAssert(st *State, cond *Term, label string) {
	e.res.Obligations++
	if cond.IsTrue() {
		e.res.Discharged++
		e.res.assertSeen(label, true)
		return
	}
	neg := e.ts.Not(cond)
	q := append(append([]*Term(nil), st.pc...), neg)
	r, m := e.solver.Check(q, true)
	// (a sample: the first 20 verdict queries of a job and every 200th after that - re-deciding all of
	// them took the graph check from 3 minutes to over 50)
	if e.cross != nil && r != Unknown && (e.res.CrossChecked < 20 || e.res.Obligations%200 == 0) {
		// cross-solver tier: the verdict query is re-decided by a second solver
		r2, _ := e.cross.Check(q, false)
		e.res.CrossChecked++
		if r2 != Unknown && r2 != r {
			e.res.CrossDisagree++
			e.res.note(fmt.Sprintf("SOLVER DISAGREEMENT on assertion %s: primary %s, cross %s", label, r, r2))
			e.res.Inconclusive = append(e.res.Inconclusive, "solver disagreement on assertion "+label)
		} else if r2 == Unknown {
			e.res.CrossUnknown++
		}
	}
	switch r {
	case Unsat:
		e.res.Discharged++
		e.res.assertSeen(label, true)
		return
	case Unknown:
		e.res.Unknown++
		e.res.note("solver unknown on assertion " + label)
		e.res.assertSeen(label, false)
		return
	}
	e.res.assertSeen(label, false)
	e.recordViolation(st, "assert", label, "assertion "+label+" can fail at "+e.pos(e.curInstr), m)
	// continue on the side where the assertion holds, if any
	ok, m2 := e.feasible(st, cond)
	if !ok {
		if len(label) > 4 && label[0] == 'C' && label[3] == '.' && label[:3] != e.job.Prop {
			// an obligation of another property sharing this harness failed on this path: keep
			// going so that this property's own obligations further down are still evaluated
			return
		}
		panic(pathEnd{kind: "stop"})
	}
	e.addPC(st, cond)
	st.model = m2
}

func (e *Engine) recordViolation(st *State, kind, label, msg string, m Model) {
	v := Violation{Kind: kind, Label: label, Msg: msg, Tags: append([]string(nil), st.tags...), Inputs: map[string]interface{}{}}
	for _, in := range st.inputs {
		cv := e.ts.Eval(in.T, m)
		switch cv.S.K {
		case SBool:
			v.Inputs[in.Name] = cv.B
		case SBV:
			if in.Unsigned {
				v.Inputs[in.Name] = cv.BV
			} else {
				v.Inputs[in.Name] = signed(cv.BV, cv.S.W)
			}
		default:
			v.Inputs[in.Name] = cv.Str
		}
	}
	for _, n := range st.notes {
		v.Notes = append(v.Notes, n)
	}
	v.Func = e.job.Func
	v.Args = e.job.Args
	e.res.addViolation(v)
}

func sigOf(label string, tags []string) string {
	if len(tags) == 0 {
		return label
	}
	return label + "[" + strings.Join(tags, ",") + "]"
}

// doAssertQuiet is doAssert for end-of-path obligations (no continuation).
func (e *Engine) doAssertQuiet(st *State, cond *Term, label string) {
	defer func() {
		if r := recover(); r != nil {
			if _, ok := r.(pathEnd); !ok {
				panic(r)
			}
		}
	}()
	e.doAssert(st, cond, label)
}
