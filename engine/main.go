package main

import (
	"encoding/json"
	"flag"
	"sort"
	"fmt"
	"os"
	"strconv"
	"time"
)

func main() {
	if len(os.Args) < 2 {
		fmt.Fprintln(os.Stderr, "usage: gosym check <PROP> [flags] | run <pkg> <func> [args...] | replay <PROP> <scenario.json>")
		os.Exit(2)
	}
	cmd := os.Args[1]
	fs := flag.NewFlagSet(cmd, flag.ExitOnError)
	repo := fs.String("repo", envOr("VERIF_REPO", "/repo"), "repository under test")
	verif := fs.String("verif", envOr("VERIF_DIR", "/verif"), "verification directory")
	tier := fs.String("tier", envOr("VERIF_TIER", "quick"), "quick|thorough")
	workers := fs.Int("workers", 16, "parallel jobs")
	solver := fs.String("solver", envOr("VERIF_SOLVER", "z3-new"), "z3-new (5.1.0) | z3 (4.8.12) | cvc5")
	cross := fs.String("cross", envOr("VERIF_CROSS", ""), "second solver re-deciding every assertion query: z3 (4.8.12) | cvc5 | z3-new | none; default: z3 in the thorough tier")
	var pos []string
	args := os.Args[2:]
	for len(args) > 0 && args[0][0] != '-' {
		pos = append(pos, args[0])
		args = args[1:]
	}
	fs.Parse(args)
	pos = append(pos, fs.Args()...)
	seed, _ := strconv.ParseInt(os.Getenv("VERIF_SEED"), 10, 64)
	switch cmd {
	case "check":
		if len(pos) < 1 {
			fmt.Fprintln(os.Stderr, "check: property id required")
			os.Exit(2)
		}
		spec := specs[pos[0]]
		if spec == nil {
			fmt.Fprintln(os.Stderr, "unknown property", pos[0])
			os.Exit(2)
		}
		spec.solverDesc = *solver + " (one incremental process per job; push/assert/check-sat/get-value/pop)"
		hp := spec.Harness
		if len(hp) == 0 {
			hp = []string{spec.ID}
		}
		w, err := LoadWorld(*repo, *verif, hp...)
		if err != nil {
			fmt.Printf("INCONCLUSIVE property=%s reason=load failed: %v\n", spec.ID, err)
			os.Exit(2)
		}
		jobSeed = seed
		crossSolver = *cross
		if crossSolver == "" && *tier == "thorough" {
			crossSolver = "z3" // a sample of the verdict queries is re-decided by z3 4.8.12 (see doAssert)
		}
		if crossSolver == "none" {
			crossSolver = ""
		}
		cr := runCheck(w, spec, *tier, *workers, *solver)
		os.Exit(finish(w, *verif, spec, cr, seed))
	case "run":
		// debugging: run one harness function and print the result
		if len(pos) < 3 {
			fmt.Fprintln(os.Stderr, "run <PROP> <pkg> <func> [args...]")
			os.Exit(2)
		}
		w, err := LoadWorld(*repo, *verif, pos[0])
		if err != nil {
			fmt.Println("load:", err)
			os.Exit(2)
		}
		for p, es := range w.illTyped {
			fmt.Println("ill-typed", p, es)
		}
		j := &Job{Prop: pos[0], Pkg: pos[1], Func: pos[2], MaxSteps: 5000000, MaxLen: 64, Unwind: 300, Timeout: 30 * time.Minute}
		for _, a := range pos[3:] {
			v, _ := strconv.ParseInt(a, 10, 64)
			j.Args = append(j.Args, v)
		}
		if v, err := strconv.Atoi(os.Getenv("GOSYM_MAXLEN")); err == nil {
			j.MaxLen = v
		}
		if os.Getenv("GOSYM_PROFILE") != "" {
			profileQueries = true
		}
		r := runJob(w, j, *solver)
		if r.QueryPos != nil {
			type kv struct {
				k string
				v int
			}
			var kvs []kv
			for k, v := range r.QueryPos {
				kvs = append(kvs, kv{k, v})
			}
			sort.Slice(kvs, func(i, j int) bool { return kvs[i].v > kvs[j].v })
			for i, x := range kvs {
				if i < 25 {
					fmt.Printf("  %6d %s\n", x.v, x.k)
				}
			}
		}
		fmt.Printf("load %.1fs; paths=%d ends=%v forks=%d obligations=%d discharged=%d unknown=%d steps=%d wall=%.1fs\n", w.loadTime.Seconds(), r.Paths, r.Ends, r.Forks, r.Obligations, r.Discharged, r.Unknown, r.Steps, r.Wall.Seconds())
		fmt.Printf("solver: %+v\n", r.Solver)
		fmt.Printf("covers: %v\nasserts: %v\n", r.Covers, r.Asserts)
		for _, s := range r.Inconclusive {
			fmt.Println("INCONCLUSIVE:", s)
		}
		for _, n := range r.Notes {
			fmt.Println("note:", n)
		}
		for _, v := range r.Violations {
			fmt.Printf("VIOLATION %s: %s\n   inputs=%v tags=%v\n", v.Signature, v.Msg, v.Inputs, v.Tags)
		}
	case "replay":
		if len(pos) < 2 {
			fmt.Fprintln(os.Stderr, "replay <PROP> <scenario.json>")
			os.Exit(2)
		}
		spec := specs[pos[0]]
		rp := spec.Replay["*"]
		if data, err := os.ReadFile(pos[1]); err == nil {
			var sc struct{ Harness string }
			json.Unmarshal(data, &sc)
			if r, ok := spec.Replay[sc.Harness]; ok {
				rp = r
			}
		}
		ok, out := runReplay(*repo, *verif, rp, pos[1])
		fmt.Println(out)
		if ok {
			fmt.Println("reproduced")
			os.Exit(1)
		}
		fmt.Println("not reproduced")
	default:
		fmt.Fprintln(os.Stderr, "unknown command", cmd)
		os.Exit(2)
	}
}

func envOr(k, d string) string {
	if v := os.Getenv(k); v != "" {
		return v
	}
	return d
}

var profileQueries bool
