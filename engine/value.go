package main

// Runtime values of the symbolic interpreter.
//
// Scalars (all integer kinds, bool, string) are *Term. Everything that refers
// to the heap is a guarded union: a Ptr is a list of (guard, object, offset)
// alternatives with pairwise exclusive guards, so a pointer obtained from a
// map lookup with a symbolic key, or an element address with a symbolic index,
// stays one value and loads/stores through it become ite-merges / conditional
// stores instead of forks.

import (
	"fmt"
	"go/types"
	"sort"

	"golang.org/x/tools/go/ssa"
)

type Value interface{}

type PtrAlt struct {
	G   *Term
	Obj int // 0 = nil
	Off int
}

type Ptr struct{ Alts []PtrAlt }

type SliceV struct {
	P        Ptr // address of element 0 (nil pointer for a nil slice)
	Len, Cap *Term
}

type IfaceAlt struct {
	G *Term
	T types.Type // nil = nil interface
	V Value
}

type IfaceV struct{ Alts []IfaceAlt }

type FuncAlt struct {
	G     *Term
	Fn    *ssa.Function // nil = nil func (unless Thunk / Builtin set)
	Binds []Value
	Thunk *Thunk // a packaged `go` call handed to the harness
	Native *NativeFn // engine-implemented function value (e.g. a context's cancel func)
}

type NativeFn struct {
	Name string
	Data []Value
}

var nativeFns = map[string]func(c *CallCtx, data []Value) (Value, bool){}

type FuncV struct{ Alts []FuncAlt }

type Thunk struct {
	Fn   FuncV
	Args []Value
	Pos  string
}

type StructV struct{ F []Value }
type ArrayV struct{ E []Value }
type TupleV []Value

// IterV is a map/string range iterator.
type IterV struct {
	Keys  []Value
	Vals  []Value
	Guard []*Term // entry is produced iff guard holds
	Pos   int
	IsStr bool
}

// ---- constructors ----

func (e *Engine) nilPtr() Ptr { return Ptr{[]PtrAlt{{G: e.ts.T}}} }
func (e *Engine) mkPtr(obj, off int) Ptr {
	return Ptr{[]PtrAlt{{G: e.ts.T, Obj: obj, Off: off}}}
}
func (p Ptr) concrete() (int, int, bool) {
	if len(p.Alts) == 1 {
		return p.Alts[0].Obj, p.Alts[0].Off, true
	}
	return 0, 0, false
}
func (p Ptr) isNilConst() bool { return len(p.Alts) == 1 && p.Alts[0].Obj == 0 }

func (e *Engine) nilIface() IfaceV { return IfaceV{[]IfaceAlt{{G: e.ts.T}}} }
func (e *Engine) mkIface(t types.Type, v Value) IfaceV {
	return IfaceV{[]IfaceAlt{{G: e.ts.T, T: t, V: v}}}
}
func (e *Engine) nilFunc() FuncV { return FuncV{[]FuncAlt{{G: e.ts.T}}} }
func (e *Engine) mkFunc(fn *ssa.Function, binds []Value) FuncV {
	return FuncV{[]FuncAlt{{G: e.ts.T, Fn: fn, Binds: binds}}}
}

// normPtr merges alternatives with identical targets and drops false guards.
func (e *Engine) normPtr(alts []PtrAlt) Ptr {
	ts := e.ts
	type key struct{ o, f int }
	idx := map[key]int{}
	var out []PtrAlt
	for _, a := range alts {
		if a.G.IsFalse() {
			continue
		}
		k := key{a.Obj, a.Off}
		if i, ok := idx[k]; ok {
			out[i].G = ts.Or(out[i].G, a.G)
			continue
		}
		idx[k] = len(out)
		out = append(out, a)
	}
	if len(out) == 0 {
		return e.nilPtr()
	}
	if len(out) == 1 {
		out[0].G = ts.T
	}
	return Ptr{out}
}

func (e *Engine) ptrAdd(p Ptr, delta int) Ptr {
	out := make([]PtrAlt, len(p.Alts))
	for i, a := range p.Alts {
		out[i] = a
		if a.Obj != 0 {
			out[i].Off += delta
		}
	}
	return Ptr{out}
}

// ptrNotNil is the condition under which p is non-nil.
func (e *Engine) ptrIsNil(p Ptr) *Term {
	var gs []*Term
	for _, a := range p.Alts {
		if a.Obj == 0 {
			gs = append(gs, a.G)
		}
	}
	return e.ts.Or(gs...)
}

func (e *Engine) ptrEq(a, b Ptr) *Term {
	ts := e.ts
	var gs []*Term
	for _, x := range a.Alts {
		for _, y := range b.Alts {
			if x.Obj == y.Obj && (x.Obj == 0 || x.Off == y.Off) {
				gs = append(gs, ts.And(x.G, y.G))
			}
		}
	}
	return ts.Or(gs...)
}

// ---- merging ----

// mergeVals builds ite(g0, v0, ite(g1, v1, ...)); guards are assumed
// exclusive and (under the path condition) exhaustive, so the last guard is
// dropped.
func (e *Engine) mergeVals(gs []*Term, vs []Value) Value {
	if len(vs) == 0 {
		panic("mergeVals: empty")
	}
	if len(vs) == 1 {
		return vs[0]
	}
	ts := e.ts
	switch vs[0].(type) {
	case *Term:
		res := vs[len(vs)-1].(*Term)
		for i := len(vs) - 2; i >= 0; i-- {
			res = ts.Ite(gs[i], vs[i].(*Term), res)
		}
		return res
	case Ptr:
		var alts []PtrAlt
		for i, v := range vs {
			for _, a := range v.(Ptr).Alts {
				alts = append(alts, PtrAlt{G: ts.And(gs[i], a.G), Obj: a.Obj, Off: a.Off})
			}
		}
		return e.normPtr(alts)
	case SliceV:
		ps := make([]Value, len(vs))
		ls := make([]Value, len(vs))
		cs := make([]Value, len(vs))
		for i, v := range vs {
			s := v.(SliceV)
			ps[i], ls[i], cs[i] = s.P, s.Len, s.Cap
		}
		return SliceV{P: e.mergeVals(gs, ps).(Ptr), Len: e.mergeVals(gs, ls).(*Term), Cap: e.mergeVals(gs, cs).(*Term)}
	case IfaceV:
		var alts []IfaceAlt
		for i, v := range vs {
			for _, a := range v.(IfaceV).Alts {
				g := ts.And(gs[i], a.G)
				if g.IsFalse() {
					continue
				}
				alts = append(alts, IfaceAlt{G: g, T: a.T, V: a.V})
			}
		}
		return e.normIface(alts)
	case FuncV:
		var alts []FuncAlt
		for i, v := range vs {
			for _, a := range v.(FuncV).Alts {
				g := ts.And(gs[i], a.G)
				if g.IsFalse() {
					continue
				}
				a.G = g
				alts = append(alts, a)
			}
		}
		if len(alts) == 1 {
			alts[0].G = ts.T
		}
		return FuncV{alts}
	case StructV:
		n := len(vs[0].(StructV).F)
		out := make([]Value, n)
		for f := 0; f < n; f++ {
			col := make([]Value, len(vs))
			for i, v := range vs {
				col[i] = v.(StructV).F[f]
			}
			out[f] = e.mergeVals(gs, col)
		}
		return StructV{out}
	case ArrayV:
		n := len(vs[0].(ArrayV).E)
		out := make([]Value, n)
		for f := 0; f < n; f++ {
			col := make([]Value, len(vs))
			for i, v := range vs {
				col[i] = v.(ArrayV).E[f]
			}
			out[f] = e.mergeVals(gs, col)
		}
		return ArrayV{out}
	case TupleV:
		n := len(vs[0].(TupleV))
		out := make(TupleV, n)
		for f := 0; f < n; f++ {
			col := make([]Value, len(vs))
			for i, v := range vs {
				col[i] = v.(TupleV)[f]
			}
			out[f] = e.mergeVals(gs, col)
		}
		return out
	case nil:
		return nil
	}
	panic(fmt.Sprintf("mergeVals: unsupported %T", vs[0]))
}

// normIface merges alternatives of the same dynamic type whose payloads can be merged.
func (e *Engine) normIface(alts []IfaceAlt) IfaceV {
	ts := e.ts
	var out []IfaceAlt
	for _, a := range alts {
		merged := false
		for i := range out {
			o := &out[i]
			if (o.T == nil) != (a.T == nil) {
				continue
			}
			if o.T == nil || types.Identical(o.T, a.T) {
				if o.T != nil {
					o.V = e.mergeVals([]*Term{a.G, o.G}, []Value{a.V, o.V})
				}
				o.G = ts.Or(o.G, a.G)
				merged = true
				break
			}
		}
		if !merged {
			out = append(out, a)
		}
	}
	if len(out) == 0 {
		return e.nilIface()
	}
	if len(out) == 1 {
		out[0].G = ts.T
	}
	return IfaceV{out}
}

func (e *Engine) ite(c *Term, a, b Value) Value {
	if c.IsTrue() {
		return a
	}
	if c.IsFalse() {
		return b
	}
	return e.mergeVals([]*Term{c, e.ts.Not(c)}, []Value{a, b})
}

// ---- type layout ----

func isNamed(t types.Type, pkg, name string) bool {
	n, ok := t.(*types.Named)
	if !ok {
		return false
	}
	o := n.Obj()
	return o.Name() == name && o.Pkg() != nil && o.Pkg().Path() == pkg
}

// cells returns the number of heap cells a value of type t occupies.
func (e *Engine) cells(t types.Type) int {
	if n, ok := e.cellCache[t]; ok {
		return n
	}
	var n int
	switch u := t.Underlying().(type) {
	case *types.Struct:
		for i := 0; i < u.NumFields(); i++ {
			n += e.cells(u.Field(i).Type())
		}
		if n == 0 {
			n = 0
		}
	case *types.Array:
		n = int(u.Len()) * e.cells(u.Elem())
	default:
		n = 1
	}
	e.cellCache[t] = n
	return n
}

func (e *Engine) fieldOffset(st *types.Struct, idx int) int {
	off := 0
	for i := 0; i < idx; i++ {
		off += e.cells(st.Field(i).Type())
	}
	return off
}

func intWidth(b *types.Basic) (int, bool) {
	switch b.Kind() {
	case types.Int8, types.Uint8:
		return 8, true
	case types.Int16, types.Uint16:
		return 16, true
	case types.Int32, types.Uint32:
		return 32, true
	case types.Int, types.Uint, types.Int64, types.Uint64, types.Uintptr, types.UntypedInt, types.UntypedRune:
		return 64, true
	}
	return 0, false
}

func isSigned(t types.Type) bool {
	b, ok := t.Underlying().(*types.Basic)
	return ok && b.Info()&types.IsUnsigned == 0
}

func (e *Engine) sortOf(t types.Type) (Sort, bool) {
	switch u := t.Underlying().(type) {
	case *types.Basic:
		if w, ok := intWidth(u); ok {
			return BVSort(w), true
		}
		switch u.Kind() {
		case types.Bool, types.UntypedBool:
			return BoolSort, true
		case types.String, types.UntypedString:
			return StringSort, true
		case types.Float64, types.Float32, types.UntypedFloat:
			return BVSort(64), true // floats are opaque 64-bit words; arithmetic on them is unmodelled
		case types.UnsafePointer:
			return BVSort(64), true
		}
	}
	return Sort{}, false
}

// zero returns the zero value of t (register form).
func (e *Engine) zero(t types.Type) Value {
	ts := e.ts
	switch u := t.Underlying().(type) {
	case *types.Basic:
		if u.Kind() == types.UntypedNil {
			return e.nilPtr()
		}
		s, ok := e.sortOf(t)
		if !ok {
			panic(fmt.Sprintf("zero: basic %v", t))
		}
		switch s.K {
		case SBool:
			return ts.F
		case SString:
			return ts.StrC("")
		default:
			return ts.BV(0, s.W)
		}
	case *types.Pointer, *types.Map, *types.Chan:
		return e.nilPtr()
	case *types.Slice:
		return SliceV{P: e.nilPtr(), Len: ts.Int(0), Cap: ts.Int(0)}
	case *types.Interface:
		return e.nilIface()
	case *types.Signature:
		return e.nilFunc()
	case *types.Struct:
		f := make([]Value, u.NumFields())
		for i := range f {
			f[i] = e.zero(u.Field(i).Type())
		}
		return StructV{f}
	case *types.Array:
		el := make([]Value, int(u.Len()))
		for i := range el {
			el[i] = e.zero(u.Elem())
		}
		return ArrayV{el}
	case *types.Tuple:
		tv := make(TupleV, u.Len())
		for i := range tv {
			tv[i] = e.zero(u.At(i).Type())
		}
		return tv
	}
	panic(fmt.Sprintf("zero: %v (%T)", t, t.Underlying()))
}

// flatten appends the cells of v (of type t) to out.
func (e *Engine) flatten(t types.Type, v Value, out []Value) []Value {
	switch u := t.Underlying().(type) {
	case *types.Struct:
		sv := v.(StructV)
		for i := 0; i < u.NumFields(); i++ {
			out = e.flatten(u.Field(i).Type(), sv.F[i], out)
		}
		return out
	case *types.Array:
		av := v.(ArrayV)
		for i := 0; i < int(u.Len()); i++ {
			out = e.flatten(u.Elem(), av.E[i], out)
		}
		return out
	}
	return append(out, v)
}

// unflatten rebuilds a value of type t from cells, returning the rest.
func (e *Engine) unflatten(t types.Type, cells []Value) (Value, []Value) {
	switch u := t.Underlying().(type) {
	case *types.Struct:
		f := make([]Value, u.NumFields())
		for i := range f {
			f[i], cells = e.unflatten(u.Field(i).Type(), cells)
		}
		return StructV{f}, cells
	case *types.Array:
		el := make([]Value, int(u.Len()))
		for i := range el {
			el[i], cells = e.unflatten(u.Elem(), cells)
		}
		return ArrayV{el}, cells
	}
	return cells[0], cells[1:]
}

// ---- equality of values (Go ==) ----

func (e *Engine) valEq(t types.Type, a, b Value) *Term {
	ts := e.ts
	switch x := a.(type) {
	case *Term:
		return ts.Eq(x, b.(*Term))
	case Ptr:
		return e.ptrEq(x, b.(Ptr))
	case IfaceV:
		y := b.(IfaceV)
		var gs []*Term
		for _, p := range x.Alts {
			for _, q := range y.Alts {
				if (p.T == nil) != (q.T == nil) {
					continue
				}
				if p.T == nil {
					gs = append(gs, ts.And(p.G, q.G))
					continue
				}
				if !types.Identical(p.T, q.T) {
					continue
				}
				gs = append(gs, ts.And(p.G, q.G, e.valEq(p.T, p.V, q.V)))
			}
		}
		return ts.Or(gs...)
	case StructV:
		y := b.(StructV)
		st := t.Underlying().(*types.Struct)
		var gs []*Term
		for i := range x.F {
			gs = append(gs, e.valEq(st.Field(i).Type(), x.F[i], y.F[i]))
		}
		return ts.And(gs...)
	case ArrayV:
		y := b.(ArrayV)
		at := t.Underlying().(*types.Array)
		var gs []*Term
		for i := range x.E {
			gs = append(gs, e.valEq(at.Elem(), x.E[i], y.E[i]))
		}
		return ts.And(gs...)
	case SliceV:
		// only comparison against nil is legal
		y := b.(SliceV)
		if y.P.isNilConst() {
			return e.ptrIsNil(x.P)
		}
		if x.P.isNilConst() {
			return e.ptrIsNil(y.P)
		}
	case FuncV:
		y := b.(FuncV)
		isNil := func(f FuncV) *Term {
			var gs []*Term
			for _, al := range f.Alts {
				if al.Fn == nil && al.Thunk == nil && al.Native == nil {
					gs = append(gs, al.G)
				}
			}
			return ts.Or(gs...)
		}
		if len(y.Alts) == 1 && y.Alts[0].Fn == nil && y.Alts[0].Thunk == nil && y.Alts[0].Native == nil {
			return isNil(x)
		}
		if len(x.Alts) == 1 && x.Alts[0].Fn == nil && x.Alts[0].Thunk == nil && x.Alts[0].Native == nil {
			return isNil(y)
		}
	}
	panic(fmt.Sprintf("valEq: unsupported %T (%v)", a, t))
}

// ifaceIsNil is the condition under which an interface value is nil.
func (e *Engine) ifaceIsNil(v IfaceV) *Term {
	var gs []*Term
	for _, a := range v.Alts {
		if a.T == nil {
			gs = append(gs, a.G)
		}
	}
	return e.ts.Or(gs...)
}

// ---- pretty printing for evidence / debugging ----

func (e *Engine) showVal(v Value) string {
	switch x := v.(type) {
	case nil:
		return "<nil>"
	case *Term:
		return e.ts.Show(x)
	case Ptr:
		s := "ptr{"
		for i, a := range x.Alts {
			if i > 0 {
				s += " | "
			}
			if len(x.Alts) > 1 {
				s += e.ts.Show(a.G) + "->"
			}
			if a.Obj == 0 {
				s += "nil"
			} else {
				s += fmt.Sprintf("o%d+%d", a.Obj, a.Off)
			}
		}
		return s + "}"
	case SliceV:
		return fmt.Sprintf("slice{%s len=%s cap=%s}", e.showVal(x.P), e.ts.Show(x.Len), e.ts.Show(x.Cap))
	case IfaceV:
		s := "iface{"
		for i, a := range x.Alts {
			if i > 0 {
				s += " | "
			}
			if a.T == nil {
				s += "nil"
			} else {
				s += a.T.String() + ":" + e.showVal(a.V)
			}
		}
		return s + "}"
	case FuncV:
		s := "func{"
		for i, a := range x.Alts {
			if i > 0 {
				s += " | "
			}
			if a.Fn != nil {
				s += a.Fn.String()
			} else if a.Thunk != nil {
				s += "thunk"
			} else {
				s += "nil"
			}
		}
		return s + "}"
	case StructV:
		s := "struct{"
		for i, f := range x.F {
			if i > 0 {
				s += ", "
			}
			s += e.showVal(f)
		}
		return s + "}"
	case ArrayV:
		return fmt.Sprintf("array[%d]", len(x.E))
	case TupleV:
		s := "("
		for i, f := range x {
			if i > 0 {
				s += ", "
			}
			s += e.showVal(f)
		}
		return s + ")"
	}
	return fmt.Sprintf("%T", v)
}

func sortIntsStd(a []int) { sort.Ints(a) }
