package main

import (
	"crypto/sha256"
	"fmt"
	"go/types"
	"os"
	"path"
	"path/filepath"
	"sort"
	"strings"
	"sync"
	"time"

	"golang.org/x/tools/go/packages"
	"golang.org/x/tools/go/ssa"
	"golang.org/x/tools/go/ssa/ssautil"
)

// World is the loaded program, shared read-only by all workers.
type World struct {
	repo     string
	prog     *ssa.Program
	pkgs     []*packages.Package
	byPath   map[string]*ssa.Package
	funcs    map[string]*ssa.Function
	funcsMu  sync.Mutex
	loadTime time.Duration
	illTyped map[string][]string
	harness  []string
	srcCache map[string][]string
}

func pathJoinGo(ps []string) string { return path.Join(ps...) }
func pathDirGo(s string) string     { return path.Dir(s) }
func pathExtGo(s string) string     { return filepath.Ext(s) }

// LoadWorld loads /repo with the verifrt package and the harness files of the
// given property injected through an overlay (nothing is written under repo).
func LoadWorld(repo, verifDir string, props ...string) (*World, error) {
	start := time.Now()
	overlay := map[string][]byte{
		filepath.Join(repo, "internal/verifrt/rt.go"): []byte(verifrtSource),
	}
	w := &World{repo: repo, byPath: map[string]*ssa.Package{}, funcs: map[string]*ssa.Function{}, illTyped: map[string][]string{}, srcCache: map[string][]string{}}
	hroot := filepath.Join(verifDir, "harness")
	err := filepath.Walk(hroot, func(p string, info os.FileInfo, err error) error {
		if err != nil || info.IsDir() || !strings.HasSuffix(p, ".go") {
			return nil
		}
		base := filepath.Base(p)
		match := strings.HasPrefix(base, "common_")
		for _, prop := range props {
			if strings.HasPrefix(base, prop+"_") {
				match = true
			}
		}
		if !match {
			return nil
		}
		rel, _ := filepath.Rel(hroot, filepath.Dir(p))
		data, err := os.ReadFile(p)
		if err != nil {
			return err
		}
		overlay[filepath.Join(repo, rel, "zz_verif_"+base)] = data
		w.harness = append(w.harness, p)
		return nil
	})
	if err != nil {
		return nil, err
	}
	cfg := &packages.Config{
		Mode:       packages.LoadAllSyntax,
		Dir:        repo,
		BuildFlags: []string{"-tags=verif"},
		Overlay:    overlay,
		Env:        append(os.Environ(), "GOFLAGS=-mod=mod", "GOPROXY=off", "GOSUMDB=off", "GOTOOLCHAIN=local"),
	}
	pkgs, err := packages.Load(cfg, "./...", "./internal/verifrt")
	if err != nil {
		return nil, err
	}
	for _, p := range pkgs {
		for _, e := range p.Errors {
			w.illTyped[p.PkgPath] = append(w.illTyped[p.PkgPath], e.Error())
		}
	}
	prog, spkgs := ssautil.AllPackages(pkgs, ssa.InstantiateGenerics)
	prog.Build()
	w.prog = prog
	w.pkgs = pkgs
	for i, sp := range spkgs {
		if sp != nil {
			w.byPath[pkgs[i].PkgPath] = sp
		}
	}
	for _, sp := range prog.AllPackages() {
		w.byPath[sp.Pkg.Path()] = sp
	}
	w.loadTime = time.Since(start)
	return w, nil
}

func (w *World) pkg(path string) *ssa.Package { return w.byPath[path] }

func (w *World) lookupGlobal(pkg, name string) *ssa.Global {
	p := w.byPath[pkg]
	if p == nil {
		panic("package not loaded: " + pkg)
	}
	g, ok := p.Members[name].(*ssa.Global)
	if !ok {
		panic("no global " + pkg + "." + name)
	}
	return g
}

func (w *World) lookupType(pkg, name string) types.Type {
	p := w.byPath[pkg]
	if p == nil {
		panic("package not loaded: " + pkg)
	}
	o := p.Pkg.Scope().Lookup(name)
	if o == nil {
		panic("no type " + pkg + "." + name)
	}
	return o.Type()
}

// knownFunc reports whether a function with this ssa name exists (for Redirect validation).
func (w *World) knownFunc(name string) bool {
	w.funcsMu.Lock()
	defer w.funcsMu.Unlock()
	if len(w.funcs) == 0 {
		for fn := range ssautil.AllFunctions(w.prog) {
			w.funcs[fn.String()] = fn
		}
	}
	_, ok := w.funcs[name]
	return ok
}

// fnSource returns file:line and a hash of the function's source text.
func (w *World) fnSource(fn *ssa.Function) (string, string) {
	if fn.Syntax() == nil {
		return "", ""
	}
	fs := w.prog.Fset
	a, b := fs.Position(fn.Syntax().Pos()), fs.Position(fn.Syntax().End())
	if !a.IsValid() {
		return "", ""
	}
	w.funcsMu.Lock()
	lines, ok := w.srcCache[a.Filename]
	if !ok {
		data, err := os.ReadFile(a.Filename)
		if err == nil {
			lines = strings.Split(string(data), "\n")
		}
		w.srcCache[a.Filename] = lines
	}
	w.funcsMu.Unlock()
	h := ""
	if lines != nil && b.Line <= len(lines) {
		sum := sha256.Sum256([]byte(strings.Join(lines[a.Line-1:b.Line], "\n")))
		h = fmt.Sprintf("%x", sum[:6])
	}
	return fmt.Sprintf("%s:%d", trimRepo(a.Filename), a.Line), h
}

func sortedKeys(m map[string]int) []string {
	ks := make([]string, 0, len(m))
	for k := range m {
		ks = append(ks, k)
	}
	sort.Strings(ks)
	return ks
}
