package main

// Built-in semantics for library functions the executed code reaches (DESIGN §2.6 rule 1).

import (
	"sort"
	"regexp"
	"fmt"
	"go/types"
	"strings"
)

var intrinsics map[string]Intrinsic

func init() {
	intrinsics = map[string]Intrinsic{
		// sync/atomic
		"sync/atomic.LoadInt32":           atomicLoad,
		"sync/atomic.LoadInt64":           atomicLoad,
		"sync/atomic.LoadUint32":          atomicLoad,
		"sync/atomic.LoadUint64":          atomicLoad,
		"sync/atomic.StoreInt32":          atomicStore,
		"sync/atomic.StoreInt64":          atomicStore,
		"sync/atomic.StoreUint32":         atomicStore,
		"sync/atomic.StoreUint64":         atomicStore,
		"sync/atomic.AddInt32":            atomicAdd,
		"sync/atomic.AddInt64":            atomicAdd,
		"sync/atomic.AddUint32":           atomicAdd,
		"sync/atomic.CompareAndSwapInt32": atomicCAS,
		"sync/atomic.CompareAndSwapInt64": atomicCAS,
		"sync/atomic.SwapInt32":           atomicSwap,
		// sync
		"(*sync.Mutex).Lock":      mutexLock,
		"(*sync.Mutex).Unlock":    mutexUnlock,
		"(*sync.RWMutex).Lock":    mutexLock,
		"(*sync.RWMutex).Unlock":  mutexUnlock,
		"(*sync.RWMutex).RLock":   rwRLock,
		"(*sync.RWMutex).RUnlock": rwRUnlock,
		"(*sync.WaitGroup).Add":   wgAdd,
		"(*sync.WaitGroup).Done":  wgDone,
		"(*sync.WaitGroup).Wait":  wgWait,
		"(*sync.Once).Do":         onceDo,
		"(*sync.Map).Store":       smStore,
		"(*sync.Map).Load":        smLoad,
		"(*sync.Map).Delete":      smDelete,
		"(*sync.Map).Range":       smRange,
		// context
		"context.Background":            ctxBackground,
		"context.TODO":                  ctxBackground,
		"context.WithCancel":            ctxWithCancel,
		"context.WithTimeout":           ctxWithTimeout,
		"(*context.cancelCtx).Err":      ctxErr,
		"(*context.cancelCtx).Deadline": ctxDeadlineM,
		// errors
		"errors.Is":                 errorsIs,
		"errors.As":                 errorsAs,
		"errors.Unwrap":             errorsUnwrap,
		"golang.org/x/xerrors.As":   errorsAs,
		"golang.org/x/xerrors.Is":   errorsIs,
		// fmt
		"fmt.Sprintf":  fmtSprintf,
		"fmt.Errorf":   fmtErrorf,
		"fmt.Sprint":   fmtSprint,
		"fmt.Fprintf":  fmtFprintf,
		"fmt.Fprint":   fmtFprint,
		"fmt.Fprintln": fmtFprint,
		"fmt.Println":  noop,
		"fmt.Printf":   noop,
		"fmt.Print":    noop,
		// strings
		"strings.HasPrefix":  strHasPrefix,
		"strings.HasSuffix":  strHasSuffix,
		"strings.Contains":   strContains,
		"strings.Index":      strIndex,
		"strings.IndexByte":  strIndexByte,
		"strings.Join":       strJoin,
		"strings.Split":      strSplit,
		"strings.SplitN":     strSplitN,
		"strings.ToUpper":    strToUpper,
		"strings.ToLower":    strToLower,
		"strings.Title":      strTitle,
		"strings.TrimSpace":  strTrimSpace,
		"strings.TrimPrefix": strTrimPrefix,
		"strings.ReplaceAll": strReplaceAll,
		// time
		"time.Now":               timeNow,
		"time.Since":             timeSince,
		"(time.Time).Sub":        timeSub,
		"(time.Time).IsZero":     timeIsZero,
		"(time.Time).Nanosecond": timeNanosecond,
		"(time.Duration).String": opaqueString,
		"time.Sleep":             timeSleep,
		// bytes.Buffer (ghost string in cell 0)
		"(*bytes.Buffer).Write":       bufWrite,
		"(*bytes.Buffer).WriteString": bufWriteString,
		"(*bytes.Buffer).String":      bufString,
		"(*bytes.Buffer).Len":         bufLen,
		"(*bytes.Buffer).Bytes":       bufBytes,
		// os / misc defaults (harnesses may Redirect them)
		"os.TempDir":       func(c *CallCtx) (Value, bool) { return c.e.ts.StrC("/tmp"), true },
		"os.Getwd":         func(c *CallCtx) (Value, bool) { return TupleV{c.e.ts.StrC("/start"), c.e.nilIface()}, true },
		"os.UserHomeDir":   func(c *CallCtx) (Value, bool) { return TupleV{c.e.ts.StrC("/home/u"), c.e.nilIface()}, true },
		"reflect.ValueOf":  reflectValueOf,
		"(reflect.Value).Kind": reflectKind,
		"regexp.MustCompile":   regexpMustCompile,
		"(*regexp.Regexp).ReplaceAllString":  regexpReplaceAllString,
		"(*regexp.Regexp).ReplaceAllLiteral": regexpReplaceAllLiteral,
		"sort.Strings":   sortStrings,
		"slices.Sort[[]string string]": sortStrings,
		"path.Join":          pathJoin,
		"path/filepath.Join": pathJoin,
		"path.Dir":           pathDir,
		"path/filepath.Dir":  pathDir,
		"path/filepath.Ext":  pathExt,
		"path/filepath.IsAbs": func(c *CallCtx) (Value, bool) {
			return c.e.ts.StrPred(OStrPrefixOf, c.e.ts.StrC("/"), c.args[0].(*Term)), true
		},
		"path.IsAbs": func(c *CallCtx) (Value, bool) {
			return c.e.ts.StrPred(OStrPrefixOf, c.e.ts.StrC("/"), c.args[0].(*Term)), true
		},
		"io.WriteString": ioWriteString,
		"bytes.IndexByte": bytesIndexByte,
		"github.com/logrusorgru/aurora.Cyan":  auroraWrap,
		"github.com/logrusorgru/aurora.Green": auroraWrap,
		"github.com/logrusorgru/aurora.Red":   auroraWrap,
		"github.com/logrusorgru/aurora.Bold":  auroraWrap,
	}
}

func noop(c *CallCtx) (Value, bool) {
	if c.sig.Results().Len() == 0 {
		return nil, true
	}
	return c.e.zero(c.sig.Results()), true
}

func opaqueString(c *CallCtx) (Value, bool) {
	return c.e.ts.Fresh("opaque:"+c.fn.Name(), StringSort), true
}

// assume adds a constraint on fresh variables; the witness model is dropped if it no longer fits.
func (e *Engine) assume(st *State, cond *Term) {
	if cond.IsTrue() {
		return
	}
	e.addPC(st, cond)
	if st.model != nil && !e.ts.EvalBool(cond, st.model) {
		st.model = nil
		e.ensureModel(st)
	}
}

// ---- atomics ----

// atomicPre runs the interference hook (once per instruction) and offers a context switch.
func atomicPre(c *CallCtx) bool {
	e, st, fr := c.e, c.st, c.fr
	if st.beforeAtomic != nil && st.inHook == 0 && !fr.HookDone {
		fr.HookDone = true
		st.inHook++
		e.callFunc(st, fr, *st.beforeAtomic, nil, func(e *Engine, st *State, _ Value) { st.inHook-- })
		return false
	}
	e.yieldPoint(st, fr)
	return true
}

func elemOf(t types.Type) types.Type { return t.Underlying().(*types.Pointer).Elem() }

func atomicLoad(c *CallCtx) (Value, bool) {
	if !atomicPre(c) {
		return nil, false
	}
	p := c.args[0].(Ptr)
	c.e.checkNonNil(c.st, p)
	return c.e.load(c.st, p, elemOf(c.sig.Params().At(0).Type())), true
}

func atomicStore(c *CallCtx) (Value, bool) {
	if !atomicPre(c) {
		return nil, false
	}
	p := c.args[0].(Ptr)
	c.e.checkNonNil(c.st, p)
	c.e.store(c.st, p, elemOf(c.sig.Params().At(0).Type()), c.args[1])
	c.st.progress++
	return nil, true
}

func atomicAdd(c *CallCtx) (Value, bool) {
	if !atomicPre(c) {
		return nil, false
	}
	p := c.args[0].(Ptr)
	c.e.checkNonNil(c.st, p)
	t := elemOf(c.sig.Params().At(0).Type())
	n := c.e.ts.BvBin(OBvAdd, c.e.load(c.st, p, t).(*Term), c.args[1].(*Term))
	c.e.store(c.st, p, t, n)
	c.st.progress++
	return n, true
}

func atomicSwap(c *CallCtx) (Value, bool) {
	if !atomicPre(c) {
		return nil, false
	}
	p := c.args[0].(Ptr)
	c.e.checkNonNil(c.st, p)
	t := elemOf(c.sig.Params().At(0).Type())
	old := c.e.load(c.st, p, t)
	c.e.store(c.st, p, t, c.args[1])
	c.st.progress++
	return old, true
}

func atomicCAS(c *CallCtx) (Value, bool) {
	if !atomicPre(c) {
		return nil, false
	}
	e, st := c.e, c.st
	p := c.args[0].(Ptr)
	e.checkNonNil(st, p)
	t := elemOf(c.sig.Params().At(0).Type())
	old := e.load(st, p, t).(*Term)
	eq := e.ts.Eq(old, c.args[1].(*Term))
	e.store(st, p, t, e.ts.Ite(eq, c.args[2].(*Term), old))
	st.progress++
	return eq, true
}

// ---- mutexes: cell 0 holds a 64-bit counter: 0 free, -1 writer, n>0 readers ----

func lockCell(c *CallCtx) (Ptr, int64) {
	p := c.args[0].(Ptr)
	c.e.checkNonNil(c.st, p)
	o, off, ok := p.concrete()
	if !ok {
		panic(pathEnd{kind: "unmodelled", msg: "symbolic mutex pointer"})
	}
	v := c.st.obj(o).Cells[off]
	if t, ok := v.(*Term); ok && t.IsConst() {
		return p, signed(t.BV, t.S.W)
	}
	panic(pathEnd{kind: "unmodelled", msg: "symbolic mutex state"})
}

func setLock(c *CallCtx, p Ptr, v int64) {
	o, off, _ := p.concrete()
	c.st.wobj(o).Cells[off] = c.e.ts.Int(v)
	c.st.progress++
}

func lockState(st *State, o, off int) int64 {
	t := st.obj(o).Cells[off].(*Term)
	return signed(t.BV, t.S.W)
}

func mutexLock(c *CallCtx) (Value, bool) {
	c.e.yieldPoint(c.st, c.fr)
	p, v := lockCell(c)
	if v != 0 {
		o, off, _ := p.concrete()
		c.e.block(c.st, "Lock at "+c.e.pos(c.e.curInstr), func(e *Engine, s *State) bool { return lockState(s, o, off) == 0 })
		return nil, false
	}
	setLock(c, p, -1)
	return nil, true
}

func mutexUnlock(c *CallCtx) (Value, bool) {
	p, v := lockCell(c)
	if v != -1 {
		c.e.goPanic(c.st, "unlock", "sync: unlock of unlocked mutex", nil)
	}
	setLock(c, p, 0)
	return nil, true
}

func rwRLock(c *CallCtx) (Value, bool) {
	c.e.yieldPoint(c.st, c.fr)
	p, v := lockCell(c)
	if v < 0 {
		o, off, _ := p.concrete()
		c.e.block(c.st, "RLock at "+c.e.pos(c.e.curInstr), func(e *Engine, s *State) bool { return lockState(s, o, off) >= 0 })
		return nil, false
	}
	setLock(c, p, v+1)
	return nil, true
}

func rwRUnlock(c *CallCtx) (Value, bool) {
	p, v := lockCell(c)
	if v <= 0 {
		c.e.goPanic(c.st, "unlock", "sync: RUnlock of unlocked RWMutex", nil)
	}
	setLock(c, p, v-1)
	return nil, true
}

// ---- WaitGroup: cell 0 is the counter ----

func wgAdd(c *CallCtx) (Value, bool) {
	p, v := lockCell(c)
	d := c.args[1].(*Term)
	if !d.IsConst() {
		panic(pathEnd{kind: "unmodelled", msg: "symbolic WaitGroup delta"})
	}
	n := v + signed(d.BV, d.S.W)
	if n < 0 {
		c.e.goPanic(c.st, "waitgroup", "sync: negative WaitGroup counter", nil)
	}
	setLock(c, p, n)
	return nil, true
}

func wgDone(c *CallCtx) (Value, bool) {
	c.e.yieldPoint(c.st, c.fr)
	p, v := lockCell(c)
	if v-1 < 0 {
		c.e.goPanic(c.st, "waitgroup", "sync: negative WaitGroup counter", nil)
	}
	setLock(c, p, v-1)
	return nil, true
}

func wgWait(c *CallCtx) (Value, bool) {
	c.e.yieldPoint(c.st, c.fr)
	p, v := lockCell(c)
	if v != 0 {
		o, off, _ := p.concrete()
		c.e.block(c.st, "WaitGroup.Wait at "+c.e.pos(c.e.curInstr), func(e *Engine, s *State) bool { return lockState(s, o, off) == 0 })
		return nil, false
	}
	return nil, true
}

// ---- Once: cell 0: 0 not run, 1 running, 2 done ----

func onceDo(c *CallCtx) (Value, bool) {
	e, st, fr := c.e, c.st, c.fr
	if fr.CallDone {
		p := c.args[0].(Ptr)
		setLock(c, p, 2)
		return nil, true
	}
	e.yieldPoint(st, fr)
	p, v := lockCell(c)
	switch v {
	case 2:
		return nil, true
	case 1:
		o, off, _ := p.concrete()
		e.block(st, "Once.Do (in progress) at "+e.pos(e.curInstr), func(e *Engine, s *State) bool { return lockState(s, o, off) == 2 })
		return nil, false
	}
	setLock(c, p, 1)
	e.callFunc(st, fr, c.args[1].(FuncV), nil, nil)
	if fr.CallDone { // callee completed synchronously (intrinsic)
		setLock(c, p, 2)
		return nil, true
	}
	return nil, false
}

// ---- sync.Map: cell 0 lazily holds a pointer to a map object ----

func (e *Engine) syncMapObj(st *State, p Ptr, create bool) Ptr {
	e.checkNonNil(st, p)
	o, off, ok := p.concrete()
	if !ok {
		panic(pathEnd{kind: "unmodelled", msg: "symbolic *sync.Map (union of containers)"})
	}
	if mp, ok := st.obj(o).Cells[off].(Ptr); ok {
		return mp
	}
	if !create {
		return e.nilPtr()
	}
	m := st.newObj(KMap, 0, types.NewMap(types.Typ[types.String], types.NewInterfaceType(nil, nil)))
	mp := e.mkPtr(m.ID, 0)
	st.wobj(o).Cells[off] = mp
	return mp
}

var anyType = types.NewInterfaceType(nil, nil)

// smPtrs resolves a possibly-union *sync.Map pointer into per-alternative map pointers.
func smStore(c *CallCtx) (Value, bool) {
	e, st := c.e, c.st
	m := e.syncMapObj(st, c.args[0].(Ptr), true)
	e.mapUpdate(st, m, e.mapKey(st, c.args[1]), c.args[2])
	return nil, true
}

func smLoad(c *CallCtx) (Value, bool) {
	e, st := c.e, c.st
	m := e.syncMapObj(st, c.args[0].(Ptr), false)
	v, ok := e.mapLookup(st, m, e.mapKey(st, c.args[1]), anyType)
	return TupleV{v, ok}, true
}

func smDelete(c *CallCtx) (Value, bool) {
	e, st := c.e, c.st
	m := e.syncMapObj(st, c.args[0].(Ptr), false)
	if !m.isNilConst() {
		e.mapUpdate(st, m, e.mapKey(st, c.args[1]), nil)
	}
	return nil, true
}

// smRange calls f for each effective entry; fr.Phase tracks the position.
func smRange(c *CallCtx) (Value, bool) {
	e, st, fr := c.e, c.st, c.fr
	m := e.syncMapObj(st, c.args[0].(Ptr), false)
	if m.isNilConst() {
		return nil, true
	}
	o, _, _ := m.concrete()
	keys, vals, guards := e.mapEffective(st, st.obj(o))
	if fr.CallDone {
		cont := fr.Scratch.(*Term)
		fr.CallDone = false
		if !e.branch(st, cont) {
			fr.Phase = 0
			return nil, true
		}
	}
	pos := fr.Phase
	for pos < len(keys) {
		if e.branch(st, guards[pos]) {
			break
		}
		pos++
	}
	if pos >= len(keys) {
		fr.Phase = 0
		return nil, true
	}
	fr.Phase = pos + 1
	e.callFunc(st, fr, c.args[1].(FuncV), []Value{e.mkIface(types.Typ[types.String], keys[pos]), vals[pos]}, nil)
	return nil, false
}

// ---- context: objects of dynamic type *context.cancelCtx with our own cell layout:
// 0 parent ptr, 1 cancelled, 2 hasDeadline, 3 deadline ----

func (e *Engine) newCtx(st *State, parent Ptr) IfaceV {
	n := e.cells(elemOf(e.ctxType))
	if n < 4 {
		n = 4
	}
	o := st.newObj(KCells, n, elemOf(e.ctxType))
	for i := range o.Cells {
		o.Cells[i] = e.ts.F
	}
	o.Cells[0] = parent
	o.Cells[3] = e.ts.Int(0)
	return e.mkIface(e.ctxType, e.mkPtr(o.ID, 0))
}

func ctxBackground(c *CallCtx) (Value, bool) { return c.e.newCtx(c.st, c.e.nilPtr()), true }

func ctxPtr(c *CallCtx, v Value) Ptr {
	iv := v.(IfaceV)
	if len(iv.Alts) != 1 || iv.Alts[0].T == nil {
		panic(pathEnd{kind: "unmodelled", msg: "nil/symbolic context"})
	}
	return iv.Alts[0].V.(Ptr)
}

func (e *Engine) ctxCancelled(st *State, iv IfaceV) *Term {
	if len(iv.Alts) != 1 || iv.Alts[0].T == nil {
		return e.ts.F
	}
	p, ok := iv.Alts[0].V.(Ptr)
	if !ok {
		return e.ts.F
	}
	var gs []*Term
	for {
		o, _, ok := p.concrete()
		if !ok || o == 0 {
			break
		}
		gs = append(gs, st.obj(o).Cells[1].(*Term))
		p = st.obj(o).Cells[0].(Ptr)
	}
	return e.ts.Or(gs...)
}

// ctxDeadline returns the nearest deadline in the chain.
func (e *Engine) ctxDeadline(st *State, iv IfaceV) (*Term, *Term) {
	ts := e.ts
	d, has := ts.Int(0), ts.F
	if len(iv.Alts) != 1 || iv.Alts[0].T == nil {
		return d, has
	}
	p, ok := iv.Alts[0].V.(Ptr)
	if !ok {
		return d, has
	}
	for {
		o, _, ok := p.concrete()
		if !ok || o == 0 {
			break
		}
		oh := st.obj(o).Cells[2].(*Term)
		od := st.obj(o).Cells[3].(*Term)
		// earliest deadline wins
		earlier := ts.And(oh, ts.Or(ts.Not(has), ts.BvCmp(OBvSlt, od, d)))
		d = ts.Ite(earlier, od, d)
		has = ts.Or(has, oh)
		p = st.obj(o).Cells[0].(Ptr)
	}
	return d, has
}

func ctxWithCancel(c *CallCtx) (Value, bool) {
	e, st := c.e, c.st
	parent := ctxPtr(c, c.args[0])
	nc := e.newCtx(st, parent)
	cancel := FuncV{[]FuncAlt{{G: e.ts.T, Native: &NativeFn{Name: "ctx.cancel", Data: []Value{nc.Alts[0].V}}}}}
	return TupleV{nc, cancel}, true
}

func ctxWithTimeout(c *CallCtx) (Value, bool) {
	e, st := c.e, c.st
	parent := ctxPtr(c, c.args[0])
	nc := e.newCtx(st, parent)
	p := nc.Alts[0].V.(Ptr)
	o, _, _ := p.concrete()
	now := e.now(st)
	st.wobj(o).Cells[2] = e.ts.T
	st.wobj(o).Cells[3] = e.ts.BvBin(OBvAdd, now, c.args[1].(*Term))
	cancel := FuncV{[]FuncAlt{{G: e.ts.T, Native: &NativeFn{Name: "ctx.cancel", Data: []Value{p}}}}}
	return TupleV{nc, cancel}, true
}

func ctxErr(c *CallCtx) (Value, bool) {
	e, st := c.e, c.st
	if !atomicPreNoHook(c) {
		return nil, false
	}
	cancelled := e.ctxCancelled(st, e.mkIface(e.ctxType, c.args[0]))
	canc := e.load(st, e.global(st, e.w.lookupGlobal("context", "Canceled")), types.Universe.Lookup("error").Type())
	return e.ite(cancelled, canc, e.nilIface()), true
}

func atomicPreNoHook(c *CallCtx) bool {
	c.e.yieldPoint(c.st, c.fr)
	return true
}

func ctxDeadlineM(c *CallCtx) (Value, bool) {
	e, st := c.e, c.st
	d, has := e.ctxDeadline(st, e.mkIface(e.ctxType, c.args[0]))
	tm := StructV{[]Value{e.ts.BV(0, 64), d, e.nilPtr()}}
	return TupleV{tm, has}, true
}

func init() {
	nativeFns["ctx.cancel"] = func(c *CallCtx, data []Value) (Value, bool) {
		c.e.yieldPoint(c.st, c.fr)
		p := data[0].(Ptr)
		o, _, _ := p.concrete()
		c.st.wobj(o).Cells[1] = c.e.ts.T
		c.st.progress++
		return nil, true
	}
}

// ---- errors ----

func (e *Engine) errUnwrap1(st *State, a IfaceAlt) (IfaceV, bool) {
	if a.T != nil && types.Identical(a.T, e.wrapType) {
		p := a.V.(Ptr)
		return e.load(st, e.ptrAdd(p, 1), types.Universe.Lookup("error").Type()).(IfaceV), true
	}
	return IfaceV{}, false
}

func errorsUnwrap(c *CallCtx) (Value, bool) {
	e := c.e
	iv := c.args[0].(IfaceV)
	var gs []*Term
	var vs []Value
	for _, a := range iv.Alts {
		gs = append(gs, a.G)
		if w, ok := e.errUnwrap1(c.st, a); ok {
			vs = append(vs, w)
		} else {
			vs = append(vs, e.nilIface())
		}
	}
	return e.mergeVals(gs, vs), true
}

func errorsIs(c *CallCtx) (Value, bool) {
	e, ts := c.e, c.e.ts
	errT := types.Universe.Lookup("error").Type()
	target := c.args[1].(IfaceV)
	var rec func(iv IfaceV, depth int) *Term
	rec = func(iv IfaceV, depth int) *Term {
		res := e.valEq(errT, iv, target)
		res = ts.And(res, ts.Not(e.ifaceIsNil(iv)))
		if depth > 6 {
			return res
		}
		for _, a := range iv.Alts {
			if w, ok := e.errUnwrap1(c.st, a); ok {
				res = ts.Or(res, ts.And(a.G, rec(w, depth+1)))
			}
		}
		return res
	}
	return rec(c.args[0].(IfaceV), 0), true
}

func errorsAs(c *CallCtx) (Value, bool) {
	e, st, ts := c.e, c.st, c.e.ts
	tv := c.args[1].(IfaceV)
	if len(tv.Alts) != 1 || tv.Alts[0].T == nil {
		panic(pathEnd{kind: "unmodelled", msg: "errors.As target"})
	}
	pt := tv.Alts[0].T.(*types.Pointer)
	tt := pt.Elem()
	tp := tv.Alts[0].V.(Ptr)
	it, toIface := tt.Underlying().(*types.Interface)
	found := ts.F
	var rec func(iv IfaceV, g *Term, depth int)
	rec = func(iv IfaceV, g *Term, depth int) {
		for _, a := range iv.Alts {
			if a.T == nil {
				continue
			}
			gg := ts.And(g, a.G, ts.Not(found))
			match := false
			if toIface {
				match = types.Implements(a.T, it)
			} else {
				match = types.Identical(a.T, tt)
			}
			if match {
				var nv Value = a.V
				if toIface {
					nv = e.mkIface(a.T, a.V)
				}
				old := e.load(st, tp, tt)
				e.store(st, tp, tt, e.ite(gg, nv, old))
				found = ts.Or(found, gg)
				continue
			}
			if w, ok := e.errUnwrap1(st, a); ok && depth < 6 {
				rec(w, ts.And(g, a.G), depth+1)
			}
		}
	}
	rec(c.args[0].(IfaceV), ts.T, 0)
	return found, true
}

// ---- fmt ----

// errMsg renders an error value when its representation is known.
func (e *Engine) render(st *State, v Value, verb byte) *Term {
	ts := e.ts
	switch x := v.(type) {
	case IfaceV:
		var gs []*Term
		var vs []Value
		for _, a := range x.Alts {
			gs = append(gs, a.G)
			if a.T == nil {
				vs = append(vs, ts.StrC("<nil>"))
				continue
			}
			if types.Identical(a.T, e.errType) || types.Identical(a.T, e.wrapType) {
				vs = append(vs, e.load(st, a.V.(Ptr), types.Typ[types.String]))
				continue
			}
			if sl, ok := a.T.Underlying().(*types.Slice); ok {
				if b, ok := sl.Elem().Underlying().(*types.Basic); ok && b.Kind() == types.Uint8 && (verb == 's' || verb == 'q') {
					vs = append(vs, e.bytesToString(st, a.V.(SliceV), sl.Elem()))
					continue
				}
			}
			if mt, ok := a.T.Underlying().(*types.Map); ok {
				// map[string]string with concrete, distinct, live keys: fmt prints map[k:v ...] with sorted keys
				if r := e.renderStringMap(st, mt, a.V); r != nil {
					vs = append(vs, r)
					continue
				}
			}
			if t, ok := a.V.(*Term); ok {
				vs = append(vs, e.render(st, t, verb))
				if b, ok := a.T.Underlying().(*types.Basic); ok && t.S.K == SBV && t.IsConst() {
					if b.Info()&types.IsUnsigned == 0 {
						vs[len(vs)-1] = ts.StrC(fmt.Sprintf("%d", signed(t.BV, t.S.W)))
					}
				}
				continue
			}
			vs = append(vs, ts.Fresh("opaque:fmt", StringSort))
		}
		return e.mergeVals(gs, vs).(*Term)
	case *Term:
		switch x.S.K {
		case SString:
			if verb == 'q' {
				return ts.StrConcat(ts.StrC(`"`), x, ts.StrC(`"`))
			}
			return x
		case SBool:
			return ts.Ite(x, ts.StrC("true"), ts.StrC("false"))
		case SBV:
			if x.IsConst() {
				return ts.StrC(fmt.Sprintf("%d", x.BV))
			}
			return ts.Fresh("opaque:int", StringSort)
		}
	}
	return ts.Fresh("opaque:fmt", StringSort)
}

func (e *Engine) renderStringMap(st *State, mt *types.Map, v Value) *Term {
	kb, ok1 := mt.Key().Underlying().(*types.Basic)
	eb, ok2 := mt.Elem().Underlying().(*types.Basic)
	if !ok1 || !ok2 || kb.Kind() != types.String || eb.Kind() != types.String {
		return nil
	}
	p, ok := v.(Ptr)
	if !ok {
		return nil
	}
	o, _, okc := p.concrete()
	if !okc {
		return nil
	}
	ts := e.ts
	if o == 0 {
		return ts.StrC("map[]")
	}
	type kv struct {
		k string
		v *Term
	}
	var items []kv
	seen := map[string]bool{}
	for _, en := range st.obj(o).Entries {
		if en.Live != nil && en.Live.IsFalse() {
			continue
		}
		if !en.K.IsConst() || en.Live == nil || !en.Live.IsTrue() || seen[en.K.Str] {
			return nil
		}
		val, ok := en.V.(*Term)
		if !ok {
			return nil
		}
		seen[en.K.Str] = true
		items = append(items, kv{en.K.Str, val})
	}
	sort.Slice(items, func(i, j int) bool { return items[i].k < items[j].k })
	parts := []*Term{ts.StrC("map[")}
	for i, it := range items {
		if i > 0 {
			parts = append(parts, ts.StrC(" "))
		}
		parts = append(parts, ts.StrC(it.k+":"), it.v)
	}
	parts = append(parts, ts.StrC("]"))
	return ts.StrConcat(parts...)
}

// format renders a constant format string; returns the string term and the %w operand if any.
func (e *Engine) format(st *State, f *Term, args SliceV) (*Term, *IfaceV) {
	ts := e.ts
	if !f.IsConst() {
		return ts.Fresh("opaque:format", StringSort), nil
	}
	n := int(args.Len.BV)
	get := func(i int) Value {
		if i >= n {
			return ts.StrC("%!(MISSING)")
		}
		return e.load(st, e.ptrAdd(args.P, i), anyType)
	}
	var parts []*Term
	var wrapped *IfaceV
	s := f.Str
	ai := 0
	for i := 0; i < len(s); i++ {
		if s[i] != '%' {
			j := strings.IndexByte(s[i:], '%')
			if j < 0 {
				parts = append(parts, ts.StrC(s[i:]))
				break
			}
			parts = append(parts, ts.StrC(s[i:i+j]))
			i += j - 1
			continue
		}
		i++
		for i < len(s) && strings.IndexByte("+-# 0123456789.", s[i]) >= 0 {
			i++
		}
		if i >= len(s) {
			break
		}
		verb := s[i]
		if verb == '%' {
			parts = append(parts, ts.StrC("%"))
			continue
		}
		a := get(ai)
		ai++
		if verb == 'w' {
			if iv, ok := a.(IfaceV); ok {
				w := iv
				wrapped = &w
			}
		}
		parts = append(parts, e.render(st, a, verb))
	}
	return ts.StrConcat(parts...), wrapped
}

func fmtSprintf(c *CallCtx) (Value, bool) {
	s, _ := c.e.format(c.st, c.args[0].(*Term), c.args[1].(SliceV))
	return s, true
}

func fmtErrorf(c *CallCtx) (Value, bool) {
	s, w := c.e.format(c.st, c.args[0].(*Term), c.args[1].(SliceV))
	return c.e.newError(c.st, s, w), true
}

func (e *Engine) sprint(st *State, args SliceV, sep string) *Term {
	n := int(args.Len.BV)
	var parts []*Term
	for i := 0; i < n; i++ {
		if i > 0 && sep != "" {
			parts = append(parts, e.ts.StrC(sep))
		}
		parts = append(parts, e.render(st, e.load(st, e.ptrAdd(args.P, i), anyType), 'v'))
	}
	return e.ts.StrConcat(parts...)
}

func fmtSprint(c *CallCtx) (Value, bool) { return c.e.sprint(c.st, c.args[0].(SliceV), ""), true }

// writeTo calls w.Write([]byte(s)) as a callback; the instruction is re-executed afterwards.
func (e *Engine) writeTo(c *CallCtx, w IfaceV, s *Term) (Value, bool) {
	st, fr := c.st, c.fr
	if fr.CallDone {
		res := fr.Scratch
		if c.sig.Results().Len() == 0 {
			return nil, true
		}
		return res, true
	}
	if len(w.Alts) != 1 {
		panic(pathEnd{kind: "unmodelled", msg: "write to symbolic writer"})
	}
	a := w.Alts[0]
	if a.T == nil {
		e.goPanic(st, "nil-deref", "write to nil io.Writer", nil)
	}
	// os.File sinks (stdout/stderr) swallow output
	if isNamed(derefType(a.T), "os", "File") {
		return TupleV{e.ts.StrLen(s), e.nilIface()}, true
	}
	fn := e.w.prog.LookupMethod(a.T, nil, "Write")
	if fn == nil {
		panic(pathEnd{kind: "unmodelled", msg: "no Write on " + a.T.String()})
	}
	n := e.concretize(st, e.ts.StrLen(s), e.job.MaxLen, "written string length")
	bt := types.Typ[types.Uint8]
	p := e.allocArray(st, bt, n)
	for i := 0; i < n; i++ {
		ch := e.ts.StrToCode(e.ts.StrAt(s, e.ts.Int(int64(i))))
		e.store(st, e.ptrAdd(p, i), bt, e.ts.Extract(ch, 7, 0))
	}
	sl := SliceV{P: p, Len: e.ts.Int(int64(n)), Cap: e.ts.Int(int64(n))}
	e.callFunc(st, fr, e.mkFunc(fn, nil), []Value{a.V, sl}, nil)
	if fr.CallDone {
		return e.writeTo(c, w, s)
	}
	return nil, false
}

func derefType(t types.Type) types.Type {
	if p, ok := t.(*types.Pointer); ok {
		return p.Elem()
	}
	return t
}

func fmtFprintf(c *CallCtx) (Value, bool) {
	var s *Term
	if !c.fr.CallDone {
		s, _ = c.e.format(c.st, c.args[1].(*Term), c.args[2].(SliceV))
	}
	return c.e.writeTo(c, c.args[0].(IfaceV), s)
}

func fmtFprint(c *CallCtx) (Value, bool) {
	var s *Term
	if !c.fr.CallDone {
		sep := ""
		if c.fn.Name() == "Fprintln" {
			sep = " "
		}
		s = c.e.sprint(c.st, c.args[1].(SliceV), sep)
		if c.fn.Name() == "Fprintln" {
			s = c.e.ts.StrConcat(s, c.e.ts.StrC("\n"))
		}
	}
	return c.e.writeTo(c, c.args[0].(IfaceV), s)
}

func ioWriteString(c *CallCtx) (Value, bool) {
	return c.e.writeTo(c, c.args[0].(IfaceV), c.args[1].(*Term))
}

// ---- strings ----

func strHasPrefix(c *CallCtx) (Value, bool) {
	return c.e.ts.StrPred(OStrPrefixOf, c.args[1].(*Term), c.args[0].(*Term)), true
}
func strHasSuffix(c *CallCtx) (Value, bool) {
	return c.e.ts.StrPred(OStrSuffixOf, c.args[1].(*Term), c.args[0].(*Term)), true
}
func strContains(c *CallCtx) (Value, bool) {
	return c.e.ts.StrPred(OStrContains, c.args[0].(*Term), c.args[1].(*Term)), true
}
func strIndex(c *CallCtx) (Value, bool) {
	return c.e.ts.StrIndexOf(c.args[0].(*Term), c.args[1].(*Term), c.e.ts.Int(0)), true
}
func strIndexByte(c *CallCtx) (Value, bool) {
	b := c.args[1].(*Term)
	return c.e.ts.StrIndexOf(c.args[0].(*Term), c.e.ts.StrFromCode(c.e.ts.Zext(b, 64)), c.e.ts.Int(0)), true
}
func strTrimPrefix(c *CallCtx) (Value, bool) {
	ts := c.e.ts
	s, p := c.args[0].(*Term), c.args[1].(*Term)
	has := ts.StrPred(OStrPrefixOf, p, s)
	ls, lp := ts.StrLen(s), ts.StrLen(p)
	return ts.Ite(has, ts.StrSubstr(s, lp, ts.BvBin(OBvSub, ls, lp)), s), true
}

func (e *Engine) strSliceElems(st *State, v Value) []*Term {
	sl := v.(SliceV)
	n := e.concretize(st, sl.Len, e.job.MaxLen, "string slice length")
	out := make([]*Term, n)
	for i := range out {
		out[i] = e.load(st, e.ptrAdd(sl.P, i), types.Typ[types.String]).(*Term)
	}
	return out
}

func (e *Engine) mkStrSlice(st *State, items []*Term) SliceV {
	if len(items) == 0 {
		// non-nil empty slice
		p := e.allocArray(st, types.Typ[types.String], 1)
		return SliceV{P: p, Len: e.ts.Int(0), Cap: e.ts.Int(0)}
	}
	p := e.allocArray(st, types.Typ[types.String], len(items))
	for i, it := range items {
		e.store(st, e.ptrAdd(p, i), types.Typ[types.String], it)
	}
	return SliceV{P: p, Len: e.ts.Int(int64(len(items))), Cap: e.ts.Int(int64(len(items)))}
}

func strJoin(c *CallCtx) (Value, bool) {
	e := c.e
	items := e.strSliceElems(c.st, c.args[0])
	sep := c.args[1].(*Term)
	var parts []*Term
	for i, it := range items {
		if i > 0 {
			parts = append(parts, sep)
		}
		parts = append(parts, it)
	}
	return e.ts.StrConcat(parts...), true
}

// strSplit: concrete separators of length 1; the number of pieces is decided by forking.
func strSplit(c *CallCtx) (Value, bool) {
	e, st, ts := c.e, c.st, c.e.ts
	s, sep := c.args[0].(*Term), c.args[1].(*Term)
	if s.IsConst() && sep.IsConst() {
		ps := strings.Split(s.Str, sep.Str)
		items := make([]*Term, len(ps))
		for i, p := range ps {
			items[i] = ts.StrC(p)
		}
		return e.mkStrSlice(st, items), true
	}
	if !sep.IsConst() || len(sep.Str) != 1 {
		panic(pathEnd{kind: "unmodelled", msg: "strings.Split with symbolic/multi-byte separator"})
	}
	var items []*Term
	rest := s
	for k := 0; ; k++ {
		if k > e.job.MaxLen {
			panic(pathEnd{kind: "unwind", msg: "strings.Split pieces"})
		}
		ix := ts.StrIndexOf(rest, sep, ts.Int(0))
		none := ts.BvCmp(OBvSlt, ix, ts.Int(0))
		if e.branch(st, none) {
			items = append(items, rest)
			break
		}
		items = append(items, ts.StrSubstr(rest, ts.Int(0), ix))
		off := ts.BvBin(OBvAdd, ix, ts.Int(1))
		rest = ts.StrSubstr(rest, off, ts.BvBin(OBvSub, ts.StrLen(rest), off))
	}
	return e.mkStrSlice(st, items), true
}

func (e *Engine) mapChars(st *State, s *Term, f func(ch *Term, i int) *Term) *Term {
	ts := e.ts
	if s.Op == OIte && iteLeafCount(s, liftLimit) <= liftLimit {
		return ts.lift1(s, func(x *Term) *Term { return e.mapChars(st, x, f) })
	}
	n := e.concretize(st, ts.StrLen(s), e.job.MaxLen, "string length")
	parts := make([]*Term, n)
	for i := 0; i < n; i++ {
		ch := ts.StrToCode(ts.StrAt(s, ts.Int(int64(i))))
		parts[i] = ts.StrFromCode(f(ch, i))
	}
	return ts.StrConcat(parts...)
}

func strToUpper(c *CallCtx) (Value, bool) {
	ts := c.e.ts
	s := c.args[0].(*Term)
	if s.IsConst() {
		return ts.StrC(strings.ToUpper(s.Str)), true
	}
	return c.e.mapChars(c.st, s, func(ch *Term, _ int) *Term {
		lower := ts.And(ts.BvCmp(OBvUle, ts.Int('a'), ch), ts.BvCmp(OBvUle, ch, ts.Int('z')))
		return ts.Ite(lower, ts.BvBin(OBvSub, ch, ts.Int(32)), ch)
	}), true
}

func strToLower(c *CallCtx) (Value, bool) {
	ts := c.e.ts
	s := c.args[0].(*Term)
	if s.IsConst() {
		return ts.StrC(strings.ToLower(s.Str)), true
	}
	return c.e.mapChars(c.st, s, func(ch *Term, _ int) *Term {
		upper := ts.And(ts.BvCmp(OBvUle, ts.Int('A'), ch), ts.BvCmp(OBvUle, ch, ts.Int('Z')))
		return ts.Ite(upper, ts.BvBin(OBvAdd, ch, ts.Int(32)), ch)
	}), true
}

func strTitle(c *CallCtx) (Value, bool) {
	ts := c.e.ts
	s := c.args[0].(*Term)
	if s.IsConst() {
		return ts.StrC(strings.Title(s.Str)), true
	}
	return ts.Fresh("opaque:Title", StringSort), true
}

func strTrimSpace(c *CallCtx) (Value, bool) {
	s := c.args[0].(*Term)
	if s.IsConst() {
		return c.e.ts.StrC(strings.TrimSpace(s.Str)), true
	}
	return c.e.ts.Fresh("opaque:TrimSpace", StringSort), true
}

func strReplaceAll(c *CallCtx) (Value, bool) {
	s, a, b := c.args[0].(*Term), c.args[1].(*Term), c.args[2].(*Term)
	if s.IsConst() && a.IsConst() && b.IsConst() {
		return c.e.ts.StrC(strings.ReplaceAll(s.Str, a.Str, b.Str)), true
	}
	panic(pathEnd{kind: "unmodelled", msg: "strings.ReplaceAll on symbolic strings"})
}

// ---- time: Time = {wall, ext, loc}; ext is a non-decreasing symbolic instant (ns) ----

func (e *Engine) now(st *State) *Term {
	ts := e.ts
	t := ts.Fresh("now", BVSort(64))
	last, ok := st.ghost["now"].(*Term)
	if !ok {
		last = ts.Int(1)
	}
	e.assume(st, ts.And(ts.BvCmp(OBvSle, last, t), ts.BvCmp(OBvSlt, t, ts.Int(1<<60))))
	st.ghost["now"] = t
	return t
}

func timeNow(c *CallCtx) (Value, bool) {
	e := c.e
	if c.st.ghost["symtime"] == nil {
		// time is irrelevant unless the harness asks for it: a fixed instant keeps terms small
		return StructV{[]Value{e.ts.BV(0, 64), e.ts.Int(1), e.nilPtr()}}, true
	}
	return StructV{[]Value{e.ts.BV(0, 64), e.now(c.st), e.nilPtr()}}, true
}

func timeSince(c *CallCtx) (Value, bool) {
	return c.e.ts.Fresh("opaque:since", BVSort(64)), true
}

func timeSub(c *CallCtx) (Value, bool) {
	a, b := c.args[0].(StructV), c.args[1].(StructV)
	return c.e.ts.BvBin(OBvSub, a.F[1].(*Term), b.F[1].(*Term)), true
}

func timeIsZero(c *CallCtx) (Value, bool) {
	a := c.args[0].(StructV)
	return c.e.ts.Eq(a.F[1].(*Term), c.e.ts.Int(0)), true
}

func timeNanosecond(c *CallCtx) (Value, bool) {
	return c.e.ts.Fresh("opaque:ns", BVSort(64)), true
}

// timeSleep: a polling pause. The thread is descheduled until another thread makes
// progress; when no non-polling thread can run, the pause simply elapses. A poller whose
// whole pass (from its last wake-up to this pause) saw no progress by anyone is "clean";
// when only pollers are left and all of them are clean at the current progress value,
// nothing can ever change again: a livelock.
func timeSleep(c *CallCtx) (Value, bool) {
	e, st, fr := c.e, c.st, c.fr
	th := st.thread()
	me := st.cur
	if fr.Yielded {
		th.PassStart = st.progress
		return nil, true
	}
	clean := th.PassStart == st.progress
	th.CleanAt = -1
	if clean {
		th.CleanAt = st.progress
	}
	snap := st.progress
	if !otherRunnable(e, st, me) {
		if !clean && !sleeperWakeable(st, me) {
			th.PassStart = st.progress
			return nil, true // the pause elapses; my own pass changed something, look again
		}
		pending := false
		for i, t := range st.threads {
			if i != me && !t.Done && t.Sleeping && t.CleanAt != snap {
				pending = true
			}
		}
		if !pending {
			panic(pathEnd{kind: "deadlock", msg: "livelock: polling loop repeats without progress at " + e.pos(e.curInstr)})
		}
	}
	fr.Yielded = true
	th.Sleeping = true
	th.SleepSnap = snap
	e.block(st, "time.Sleep (polling) at "+e.pos(e.curInstr), func(e *Engine, s *State) bool {
		if s.progress > snap {
			return true
		}
		if otherRunnable(e, s, me) {
			return false
		}
		if !clean {
			// fairness among pollers: one that has seen progress since it fell asleep goes first
			return !sleeperWakeable(s, me)
		}
		// clean poller: give the other pollers their pass first; resume when all are clean (livelock is then reported)
		for i, t := range s.threads {
			if i != me && !t.Done && t.Sleeping && t.CleanAt != snap {
				return false
			}
		}
		return true
	})
	return nil, false
}

// sleeperWakeable: some other polling thread has seen progress since it fell asleep.
func sleeperWakeable(st *State, me int) bool {
	for i, t := range st.threads {
		if i != me && !t.Done && t.Sleeping && st.progress > t.SleepSnap {
			return true
		}
	}
	return false
}

// otherRunnable reports whether some thread other than me (sleepers excluded) can run.
func otherRunnable(e *Engine, st *State, me int) bool {
	for i, t := range st.threads {
		if i == me || t.Done || t.Sleeping {
			continue
		}
		if t.Wait == nil || t.Wait(e, st) {
			return true
		}
	}
	return false
}

// ---- bytes.Buffer: ghost string in cell 0 ----

func (e *Engine) bufGet(st *State, p Ptr) *Term {
	var gs []*Term
	var vs []Value
	for _, a := range p.Alts {
		if a.Obj == 0 {
			continue
		}
		gs = append(gs, a.G)
		if t, ok := st.obj(a.Obj).Cells[a.Off].(*Term); ok && t.S.K == SString {
			vs = append(vs, t)
		} else {
			vs = append(vs, e.ts.StrC(""))
		}
	}
	return e.mergeVals(gs, vs).(*Term)
}

func (e *Engine) bufAppend(st *State, p Ptr, s *Term) {
	e.checkNonNil(st, p)
	cur := e.bufGet(st, p)
	for _, a := range p.Alts {
		if a.Obj == 0 {
			continue
		}
		o := st.wobj(a.Obj)
		nv := e.ts.StrConcat(cur, s)
		if len(p.Alts) > 1 {
			old, ok := o.Cells[a.Off].(*Term)
			if !ok || old.S.K != SString {
				old = e.ts.StrC("")
			}
			nv = e.ts.Ite(a.G, nv, old)
		}
		o.Cells[a.Off] = nv
	}
}

func bufWrite(c *CallCtx) (Value, bool) {
	e := c.e
	s := e.bytesToString(c.st, c.args[1].(SliceV), types.Typ[types.Uint8])
	e.bufAppend(c.st, c.args[0].(Ptr), s)
	return TupleV{c.args[1].(SliceV).Len, e.nilIface()}, true
}

func bufWriteString(c *CallCtx) (Value, bool) {
	e := c.e
	e.bufAppend(c.st, c.args[0].(Ptr), c.args[1].(*Term))
	return TupleV{e.ts.StrLen(c.args[1].(*Term)), e.nilIface()}, true
}

func bufString(c *CallCtx) (Value, bool) {
	p := c.args[0].(Ptr)
	if p.isNilConst() {
		return c.e.ts.StrC("<nil>"), true
	}
	c.e.checkNonNil(c.st, p)
	return c.e.bufGet(c.st, p), true
}

func bufLen(c *CallCtx) (Value, bool) {
	p := c.args[0].(Ptr)
	c.e.checkNonNil(c.st, p)
	return c.e.ts.StrLen(c.e.bufGet(c.st, p)), true
}

func bufBytes(c *CallCtx) (Value, bool) {
	e, st, ts := c.e, c.st, c.e.ts
	p := c.args[0].(Ptr)
	e.checkNonNil(st, p)
	s := e.bufGet(st, p)
	n := e.concretize(st, ts.StrLen(s), e.job.MaxLen, "buffer length")
	bt := types.Typ[types.Uint8]
	bp := e.allocArray(st, bt, n)
	for i := 0; i < n; i++ {
		e.store(st, e.ptrAdd(bp, i), bt, ts.Extract(ts.StrToCode(ts.StrAt(s, ts.Int(int64(i)))), 7, 0))
	}
	return SliceV{P: bp, Len: ts.Int(int64(n)), Cap: ts.Int(int64(n))}, true
}

// ---- reflect (Kind only) ----

func reflectValueOf(c *CallCtx) (Value, bool) {
	return StructV{[]Value{c.args[0], c.e.ts.BV(0, 64), c.e.ts.BV(0, 64)}}, true
}

func reflectKind(c *CallCtx) (Value, bool) {
	e, ts := c.e, c.e.ts
	iv := c.args[0].(StructV).F[0].(IfaceV)
	var gs []*Term
	var vs []Value
	for _, a := range iv.Alts {
		gs = append(gs, a.G)
		k := 0 // Invalid
		if a.T != nil {
			switch u := a.T.Underlying().(type) {
			case *types.Basic:
				switch {
				case u.Info()&types.IsString != 0:
					k = 24
				case u.Kind() == types.Bool:
					k = 1
				case u.Kind() == types.Int:
					k = 2
				case u.Kind() == types.Int64:
					k = 6
				default:
					k = 2
				}
			case *types.Slice:
				k = 23
			case *types.Map:
				k = 21
			case *types.Pointer:
				k = 22
			case *types.Struct:
				k = 25
			case *types.Interface:
				k = 20
			case *types.Array:
				k = 17
			case *types.Signature:
				k = 19
			}
		}
		vs = append(vs, ts.BV(uint64(k), 64))
	}
	_ = e
	return e.mergeVals(gs, vs), true
}

// ---- regexp: only the patterns taskctl uses ----

func regexpMustCompile(c *CallCtx) (Value, bool) {
	e, st := c.e, c.st
	pat := c.args[0].(*Term)
	rt := c.sig.Results().At(0).Type()
	p := e.alloc(st, elemOf(rt))
	o, _, _ := p.concrete()
	if pat.IsConst() {
		st.obj(o).Label = "regexp:" + pat.Str
	}
	return p, true
}

func regexpPattern(c *CallCtx) string {
	p := c.args[0].(Ptr)
	o, _, ok := p.concrete()
	if !ok || o == 0 {
		panic(pathEnd{kind: "unmodelled", msg: "symbolic regexp"})
	}
	return strings.TrimPrefix(c.st.obj(o).Label, "regexp:")
}

// parseCharClass parses patterns of the form [set] / [^set], optionally followed by +,
// where set consists of single characters and a-b ranges. ok=false for anything else.
func parseCharClass(pat string) (ranges [][2]byte, negate, plus, ok bool) {
	if len(pat) < 3 || pat[0] != '[' {
		return
	}
	end := strings.IndexByte(pat, ']')
	if end < 0 {
		return
	}
	rest := pat[end+1:]
	if rest == "+" {
		plus = true
	} else if rest != "" {
		return
	}
	set := pat[1:end]
	if strings.HasPrefix(set, "^") {
		negate = true
		set = set[1:]
	}
	for i := 0; i < len(set); i++ {
		if set[i] == '\\' || set[i] == '[' {
			return nil, false, false, false
		}
		if i+2 < len(set) && set[i+1] == '-' {
			ranges = append(ranges, [2]byte{set[i], set[i+2]})
			i += 2
		} else {
			ranges = append(ranges, [2]byte{set[i], set[i]})
		}
	}
	return ranges, negate, plus, true
}

// regexpReplaceAllString models ReplaceAllString for single-character-class patterns with a
// replacement without $: every matching character (or, with +, every maximal run of matching
// characters) is replaced. Characters are bytes (ASCII inputs).
func regexpReplaceAllString(c *CallCtx) (Value, bool) {
	e, ts := c.e, c.e.ts
	pat := regexpPattern(c)
	src, repl := c.args[1].(*Term), c.args[2].(*Term)
	ranges, negate, plus, ok := parseCharClass(pat)
	if !ok || !repl.IsConst() || strings.Contains(repl.Str, "$") {
		panic(pathEnd{kind: "unmodelled", msg: "regexp.ReplaceAllString with pattern " + pat})
	}
	match := func(ch *Term) *Term {
		var in []*Term
		for _, r := range ranges {
			in = append(in, ts.And(ts.BvCmp(OBvUle, ts.Int(int64(r[0])), ch), ts.BvCmp(OBvUle, ch, ts.Int(int64(r[1])))))
		}
		m := ts.Or(in...)
		if negate {
			return ts.Not(m)
		}
		return m
	}
	if src.Op == OIte && iteLeafCount(src, liftLimit) <= liftLimit {
		// finite-domain string: not needed by taskctl's callers; keep the generic path
	}
	n := e.concretize(c.st, ts.StrLen(src), e.job.MaxLen, "string length")
	var parts []*Term
	prev := ts.F // previous character matched (for +)
	for i := 0; i < n; i++ {
		chs := ts.StrAt(src, ts.Int(int64(i)))
		ch := ts.StrToCode(chs)
		m := match(ch)
		out := ts.Ite(m, repl, chs)
		if plus {
			// inside a run only the first matching character emits the replacement
			out = ts.Ite(ts.And(m, prev), ts.StrC(""), out)
		}
		parts = append(parts, out)
		prev = m
	}
	return ts.StrConcat(parts...), true
}

// ReplaceAllLiteral(ansi, p, {}) is the identity on inputs without ESC (0x1b) and
// without the UTF-8 encoding of U+009B (0xc2 0x9b); other inputs are outside the model.
func regexpReplaceAllLiteral(c *CallCtx) (Value, bool) {
	e, st, ts := c.e, c.st, c.e.ts
	pat := regexpPattern(c)
	if !strings.HasPrefix(pat, "[\u001B\u009B]") {
		panic(pathEnd{kind: "unmodelled", msg: "regexp.ReplaceAllLiteral with pattern " + pat})
	}
	src := c.args[1].(SliceV)
	n := e.concretize(st, src.Len, e.job.MaxLen, "ReplaceAllLiteral input length")
	bt := types.Typ[types.Uint8]
	// fully concrete input (and replacement): the real regexp engine decides, natively
	if repl, ok := c.args[2].(SliceV); ok && repl.Len.IsConst() {
		in := make([]byte, 0, n)
		conc := true
		for i := 0; i < n && conc; i++ {
			b := e.load(st, e.ptrAdd(src.P, i), bt).(*Term)
			if b.IsConst() {
				in = append(in, byte(b.BV))
			} else {
				conc = false
			}
		}
		rn := int(repl.Len.BV)
		rb := make([]byte, 0, rn)
		for i := 0; i < rn && conc; i++ {
			b := e.load(st, e.ptrAdd(repl.P, i), bt).(*Term)
			if b.IsConst() {
				rb = append(rb, byte(b.BV))
			} else {
				conc = false
			}
		}
		if conc {
			out := regexp.MustCompile(pat).ReplaceAllLiteral(in, rb)
			np := e.allocArray(st, bt, len(out))
			for i, b := range out {
				e.store(st, e.ptrAdd(np, i), bt, ts.BV(uint64(b), 8))
			}
			return SliceV{P: np, Len: ts.Int(int64(len(out))), Cap: ts.Int(int64(len(out)))}, true
		}
	}
	var bad []*Term
	for i := 0; i < n; i++ {
		b := e.load(st, e.ptrAdd(src.P, i), bt).(*Term)
		bad = append(bad, ts.Eq(b, ts.BV(0x1b, 8)), ts.Eq(b, ts.BV(0xc2, 8)))
	}
	if ok, _ := e.feasible(st, ts.Or(bad...)); ok {
		panic(pathEnd{kind: "unmodelled", msg: "ANSI introducer byte reachable in lineWriter input (outside the model)"})
	}
	// result is a copy
	np := e.allocArray(st, bt, n)
	for i := 0; i < n; i++ {
		e.store(st, e.ptrAdd(np, i), bt, e.load(st, e.ptrAdd(src.P, i), bt))
	}
	return SliceV{P: np, Len: ts.Int(int64(n)), Cap: ts.Int(int64(n))}, true
}

// ---- sort.Strings: a compare-exchange network (no forking on comparisons) ----

func sortStrings(c *CallCtx) (Value, bool) {
	e, st, ts := c.e, c.st, c.e.ts
	sl := c.args[0].(SliceV)
	n := e.concretize(st, sl.Len, e.job.MaxLen, "sort length")
	items := make([]*Term, n)
	sT := types.Typ[types.String]
	for i := range items {
		items[i] = e.load(st, e.ptrAdd(sl.P, i), sT).(*Term)
	}
	for i := 0; i < n; i++ {
		for j := 0; j+1 < n-i; j++ {
			a, b := items[j], items[j+1]
			sw := ts.StrPred(OStrLt, b, a)
			items[j], items[j+1] = ts.Ite(sw, b, a), ts.Ite(sw, a, b)
		}
	}
	for i := range items {
		e.store(st, e.ptrAdd(sl.P, i), sT, items[i])
	}
	return nil, true
}

// ---- paths (concrete arguments only) ----

func pathJoin(c *CallCtx) (Value, bool) {
	e := c.e
	items := e.strSliceElems(c.st, c.args[0])
	join := func(cs []*Term) *Term {
		ps := make([]string, len(cs))
		for i, x := range cs {
			ps[i] = x.Str
		}
		return e.ts.StrC(pathJoinGo(ps))
	}
	allConst := true
	for _, it := range items {
		if !it.IsConst() {
			allConst = false
		}
	}
	if allConst {
		return join(items), true
	}
	// finite-domain components (ite-trees over constants): join every combination
	if r, ok := e.ts.liftArgs(items, join); ok {
		return r, true
	}
	desc := ""
	for _, it := range items {
		desc += " [" + e.ts.Show(it) + "]"
	}
	if len(desc) > 600 {
		desc = desc[:600]
	}
	panic(pathEnd{kind: "unmodelled", msg: "path.Join on a non-finite symbolic component:" + desc})
}

func pathDir(c *CallCtx) (Value, bool) {
	s := c.args[0].(*Term)
	if r, ok := c.e.ts.liftArgs([]*Term{s}, func(cs []*Term) *Term { return c.e.ts.StrC(pathDirGo(cs[0].Str)) }); ok {
		return r, true
	}
	if !s.IsConst() {
		panic(pathEnd{kind: "unmodelled", msg: "path.Dir on symbolic path"})
	}
	return c.e.ts.StrC(pathDirGo(s.Str)), true
}

func pathExt(c *CallCtx) (Value, bool) {
	s := c.args[0].(*Term)
	if !s.IsConst() {
		panic(pathEnd{kind: "unmodelled", msg: "filepath.Ext on symbolic path"})
	}
	return c.e.ts.StrC(pathExtGo(s.Str)), true
}

func auroraWrap(c *CallCtx) (Value, bool) {
	// colours are presentation only: the wrapped value is passed through
	return c.args[0], true
}

// bytes.IndexByte without forking: ite(b0==c, 0, ite(b1==c, 1, ... -1)).
func bytesIndexByte(c *CallCtx) (Value, bool) {
	e, st, ts := c.e, c.st, c.e.ts
	sl := c.args[0].(SliceV)
	ch := c.args[1].(*Term)
	bt := types.Typ[types.Uint8]
	mx := e.maxLenOf(st, sl, 1)
	if sl.Len.IsConst() {
		mx = int(sl.Len.BV)
	}
	res := ts.Int(-1)
	for i := mx - 1; i >= 0; i-- {
		b := e.load(st, e.ptrAdd(sl.P, i), bt).(*Term)
		hit := ts.And(ts.BvCmp(OBvSlt, ts.Int(int64(i)), sl.Len), ts.Eq(b, ch))
		res = ts.Ite(hit, ts.Int(int64(i)), res)
	}
	return res, true
}

// strSplitN: single-byte separators; at most n pieces (n concrete).
func strSplitN(c *CallCtx) (Value, bool) {
	e, st, ts := c.e, c.st, c.e.ts
	s, sep, n := c.args[0].(*Term), c.args[1].(*Term), c.args[2].(*Term)
	if !n.IsConst() {
		panic(pathEnd{kind: "unmodelled", msg: "strings.SplitN with symbolic n"})
	}
	lim := int(signed(n.BV, 64))
	if s.IsConst() && sep.IsConst() {
		ps := strings.SplitN(s.Str, sep.Str, lim)
		if ps == nil {
			return SliceV{P: e.nilPtr(), Len: ts.Int(0), Cap: ts.Int(0)}, true
		}
		items := make([]*Term, len(ps))
		for i, p := range ps {
			items[i] = ts.StrC(p)
		}
		return e.mkStrSlice(st, items), true
	}
	if !sep.IsConst() || len(sep.Str) != 1 || lim == 0 {
		panic(pathEnd{kind: "unmodelled", msg: "strings.SplitN with symbolic/multi-byte separator"})
	}
	var items []*Term
	rest := s
	for k := 0; ; k++ {
		if k > e.job.MaxLen {
			panic(pathEnd{kind: "unwind", msg: "strings.SplitN pieces"})
		}
		if lim > 0 && len(items) == lim-1 {
			items = append(items, rest)
			break
		}
		ix := ts.StrIndexOf(rest, sep, ts.Int(0))
		none := ts.BvCmp(OBvSlt, ix, ts.Int(0))
		if e.branch(st, none) {
			items = append(items, rest)
			break
		}
		items = append(items, ts.StrSubstr(rest, ts.Int(0), ix))
		off := ts.BvBin(OBvAdd, ix, ts.Int(1))
		rest = ts.StrSubstr(rest, off, ts.BvBin(OBvSub, ts.StrLen(rest), off))
	}
	return e.mkStrSlice(st, items), true
}
