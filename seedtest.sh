#!/bin/sh
# usage: seedtest.sh <PROP> <patch> <demo_test.go> <pkgdir>   -- confirms a seeded change and runs the check against it
# (scratch worktree /tmp/mut.<pid>, removed afterwards; nothing is applied to /repo)
P=$1; PATCH=$2; DEMO=$3; PKG=$4
export GOFLAGS=-mod=mod GOPROXY=off GOSUMDB=off GOTOOLCHAIN=local
M=/tmp/mut.$$   # one scratch worktree per invocation (concurrent invocations must not share one)
cd /repo && git worktree add -q --detach $M HEAD
trap 'git -C /repo worktree remove --force $M' EXIT
cd $M
echo "--- demo on unmodified code (expect PASS)"
cp $DEMO $PKG/zz_seed_demo_test.go
TESTS=$(grep -oE "^func (Test[A-Za-z0-9_]+)" $DEMO | awk '{print $2}' | paste -sd'|')
(go test -vet=off -count=1 -run "^($TESTS)\$" ./$PKG 2>&1 | grep -E "^(--- FAIL|FAIL|ok|panic)" | head -5)
echo "--- apply patch"
git apply $PATCH || { echo "PATCH DOES NOT APPLY"; exit 3; }
go build ./... || { echo "BUILD FAILS"; exit 3; }
echo "--- demo with the change (expect FAIL)"
(go test -vet=off -count=1 -run "^($TESTS)\$" ./$PKG 2>&1 | grep -E "^(--- FAIL|FAIL|ok|panic)" | head -5)
rm -f $PKG/zz_seed_demo_test.go
echo "--- existing test suite with the change (expect all ok)"
(timeout 900 go test -vet=off -count=1 -timeout 600s ./... 2>&1 | grep -v "^ok" | head -5)
echo "--- check $P against the change"
cd /verif && VERIF_REPO=$M timeout 1500 ./check $P quick 2>&1 | grep -E "VIOLATION|KNOWN|INCONCLUSIVE|signature| quick:" | cut -c1-300 | head -12
