#!/bin/sh
# usage: seedtest.sh <PROP> <patch> <demo_test.go> <pkgdir>   -- confirms a seeded change and runs the check against it
# (scratch worktree /tmp/mut; nothing is applied to /repo)
P=$1; PATCH=$2; DEMO=$3; PKG=$4
export GOFLAGS=-mod=mod GOPROXY=off GOSUMDB=off GOTOOLCHAIN=local
cd /repo && (git worktree list | grep -q /tmp/mut || git worktree add -q /tmp/mut HEAD)
cd /tmp/mut && git checkout -q --detach $(git -C /repo rev-parse HEAD) 2>/dev/null; git checkout -q -- . ; git clean -fdq
echo "--- demo on unmodified code (expect PASS)"
cp $DEMO $PKG/zz_seed_demo_test.go
TESTS=$(grep -oE "^func (Test[A-Za-z0-9_]+)" $DEMO | awk '{print $2}' | paste -sd'|')
(go test -vet=off -count=1 -run "^($TESTS)\$" ./$PKG 2>&1 | grep -E "^(--- FAIL|FAIL|ok|panic)" | head -5)
echo "--- apply patch"
git apply $PATCH || { echo "PATCH DOES NOT APPLY"; exit 3; }
go build ./... || { echo "BUILD FAILS"; exit 3; }
echo "--- demo with the change (expect FAIL)"
(go test -vet=off -count=1 -run "^($TESTS)\$" ./$PKG 2>&1 | grep -E "^(--- FAIL|FAIL|ok|panic)" | head -5)
rm -f $PKG/zz_seed_demo_test.go
echo "--- existing test suite with the change (expect all ok)"
(go test -vet=off -count=1 ./... 2>&1 | grep -v "^ok" | head -5)
echo "--- check $P against the change"
cd /verif && VERIF_REPO=/tmp/mut timeout 1500 ./check $P quick 2>&1 | grep -E "VIOLATION|KNOWN|INCONCLUSIVE|signature| quick:" | cut -c1-300 | head -12
cd /tmp/mut && git checkout -q -- . && git clean -fdq
